HOOK_COMMITS = ["62c23309"]
PENDING = "check not built yet (construction in progress, see DESIGN.md section 7); no claim is made"
NOT_APPLICABLE = {("C%02d" % i): PENDING for i in range(1, 21)}
CHECKS = {
 "C04": dict(
  technique="differential runtime monitoring: whole vs split/redelivered executions of the same binary, event logs compared offline",
  level="every cut set (<=6 boundaries) or a seeded sample of cut sets of the shipped examples and of generated multi-simulation inputs, each piece delivered through a random entry point; held = row histories, final DUMP and component list equal on all variants observed",
  note="trusts vdrive's recording of the public API; says nothing about inputs the generator does not produce"),
}
