HOOK_COMMITS = ["62c23309"]
FIX_COMMITS = ["f30b07ca", "4730a169", "b021ba71", "6b5e0bb5", "facba332", "c36040ff", "66db44d1"]
PENDING = "check not built yet (construction in progress, see DESIGN.md section 7); no claim is made"
NOT_APPLICABLE = {("C%02d" % i): PENDING for i in range(1, 21)}
CHECKS = {
 "C14": dict(
  technique="model-based runtime monitoring: reference map (kind, number) -> content token kept by the generator, compared after every operation with DUMP -all, component list and errors of the real engine; RUN_CELLS instance vs explicit USE/SAVE instance (differential, 1 case in 8 under ASan+UBSan)",
  level="seeded histories of 20 (quick) / 60 (thorough) single-operation simulations over 11 entity kinds and numbers 1..8: definitions with ranges, batch reactions with USE of any subset + SAVE to single numbers/ranges, COPY single/range/cell incl. absent sources and source inside the target range, DELETE lists/ranges/cell/all, SOLUTION/EQUILIBRIUM_PHASES/KINETICS/GAS_PHASE/REACTION_TEMPERATURE _MODIFY, SOLUTION_MIX, MIX+SAVE, re-speciation USE+SAVE, RUN_CELLS; after each: key set equality, untouched entries textually unchanged, entries of common origin textually identical, MODIFY touched only the named line, totals of re-saved/mixed solutions follow the current content (1e-8), RUN_CELLS == explicit sequence (1e-8 on conserved quantities, T, P, water and all reactant fields), components superset",
  note="negative user numbers are not observable through DUMP and are not generated; kinetic reactants used in a reaction may change in place; histories stop at the first simulation reporting an error"),
 "C13": dict(
  technique="model-based runtime monitoring under ASan+UBSan: executable reference model of registry + settings store, every accessor called through the C++ method, the C function and the Fortran glue on the same object and compared in place",
  level="bounded-exhaustive registry sequences (8-letter alphabet, length <=3 quick / <=4 thorough: create via each binding, destroy first/last live, double destroy, never-issued/negative ids, look-up of every id) plus seeded random histories (25-70 calls, <=4 live instances) over all setters (valid/NULL/empty/long/odd values), current-number changes, loads, 5 run inputs defining 6 selected-output numbers (incl. a heading-only table), a failing run, accumulate/clear/run-accumulated, AddError/AddWarning, invalid-id bursts with digest-unchanged checks, and three-binding probes of 34 plain + 8 indexed accessors and of table cells (in and out of range, Value/Value2/ValueF)",
  note="the Fortran 90 module source is not compiled (no Fortran compiler in the image), only its C glue; header is silent on the invalid-id result of four *StringLineCount functions (0 or IPQ_BADINSTANCE admitted); 1 defect repaired by a fix: commit"),
 "C10": dict(
  technique="differential runtime monitoring: DUMP->read->DUMP fixed point, follow-up calculations on original vs text-restored vs storage-bin copy vs serializer copy vs SOLUTION_MODIFY-restored instances (1 case in 6 under ASan+UBSan)",
  level="seeded rich states (all entity kinds incl. every surface electrostatic model, gas fixed P/V, solid solutions, kinetics, mix/reaction/temperature/pressure, optional isotopes/pressure, optionally already reacted) and generated multi-simulation chains; follow-ups RUN_CELLS over all cells and a reaction step, 60+ result columns compared at 1e-7 (measured noise floors for a few columns)",
  note="states carry dissolved O2 so that pe is pinned (a floating pe is discontinuous in the 14th digit of total_o); 1 open known finding (isotopes); 2 defects repaired by fix: commits"),
 "C07": dict(
  technique="differential runtime monitoring: history+LoadDatabase vs fresh instance, all output channels of a probe battery compared byte for byte (1 case in 8 under ASan+UBSan)",
  level="seeded histories from a grammar of 25 'dirtiers' (KNOBS, PRINT, SELECTED_OUTPUT/USER_PUNCH/USER_PRINT+PUT, RATES, CALCULATE_VALUES, TRANSPORT options incl. stagnant/multi_d/implicit/interlayer, ADVECTION, INCREMENTAL_REACTIONS, species/phase/master additions, PITZER/SIT/LLNL parameters, isotopes, all reactant kinds, DUMP/DELETE/COPY, other databases, setters) plus one of 8 failing calls; reload via LoadDatabase or LoadDatabaseString of 8 target databases; 9-11 probes (speciation, reaction, both integrators, transport, advection, mix/run_cells, memory/next numbers, dump, inverse, surface/exchange/gas)",
  note="a leftover no probe observes is not a violation by the statement; A and B run in separate processes; 2 defects repaired by fix: commits"),
 "C05": dict(
  technique="runtime monitoring under ASan+UBSan: cross-view oracle over recorded table cells, string, line accessors, file bytes and three-binding cell/out-of-range probes",
  level="seeded selected-output shapes (0-4 blocks, option subsets, precision, USER_PUNCH with too few/many values, duplicate headings, inverse rows) x random per-number switches; every line of string/file is matched to a table row by heading-defined column mapping and each text cell must be a print-format rendering of the full-precision table value; C, C++, Value2 and Fortran-glue accessors compared cell by cell incl. out-of-range/unknown-number codes",
  note="trusts the recorder; no mid-call block redefinition in generated inputs; 4 open known findings (see known_findings.json)"),
 "C09": dict(
  technique="runtime monitoring under ASan+UBSan: exhaustive switch-vector sweep, file bytes vs string vs line accessors per stream, cross-case table comparison",
  level="all 128 combinations of output/log/dump file+string and error-file switches x 6 inputs (warnings, input error, KNOBS -logfile, DUMP -append, several selected-output numbers, advection), switches re-drawn before a second call, default/custom names; tables compared across all switch vectors of an input (1e-6)",
  note="dump equality judged while both dump sinks were on for the whole history; 1 open known finding shared with C05; 2 defects repaired by fix: commits"),
 "C04": dict(
  technique="differential runtime monitoring: whole vs split/redelivered executions of the same binary, event logs compared offline",
  level="every cut set (<=6 boundaries) or a seeded sample of cut sets of the shipped examples and of generated multi-simulation inputs, each piece delivered through a random entry point; held = row histories, final DUMP and component list equal on all variants observed",
  note="trusts vdrive's recording of the public API; says nothing about inputs the generator does not produce"),
}
