#!/usr/bin/env python3
"""debug helper: run input text (file or stdin) on a database with the opt vdrive; print return and errors"""
import sys, os, json, subprocess, tempfile, glob
sys.path.insert(0, os.path.dirname(os.path.dirname(os.path.abspath(__file__))))
from vlib import core
def run(text, db="/repo/database/phreeqc.dat", flags="e", flavour="opt", sel=False):
    exe = glob.glob("/verif/.build/%s-*/vdrive" % flavour)[0]
    d = tempfile.mkdtemp(prefix="runinp")
    s = core.Script(); s.raw("new a"); s.raw("loaddb a " + db)
    if sel: s.raw("set a SelectedOutputStringOn 1")
    s.raw("set a OutputStringOn 1"); s.run("a", text); s.raw("snap a " + flags)
    r = core.run_vdrive(exe, s.bytes(), d, timeout=120)
    import shutil; shutil.rmtree(d, ignore_errors=True)
    return r
if __name__ == "__main__":
    db = sys.argv[1] if len(sys.argv) > 1 else "/repo/database/phreeqc.dat"
    text = open(sys.argv[2]).read() if len(sys.argv) > 2 else sys.stdin.read()
    r = run(text, db, flags="eow" if "-o" in sys.argv else "ew")
    for x in r["records"]:
        if x.get("ev") == "ret" and x["op"] == "run": print("return", x.get("r"), x.get("exc"))
        if x.get("ev") == "ret" and x["op"] == "snap":
            print("ERR:", x["error"].get("text", "")[:2000]); print("WARN:", x["warning"].get("text", "")[:1000])
            if "-o" in sys.argv: print(x["output"]["text"])
    if r["rc"]: print("rc", r["rc"], r["stderr"][-2000:])
