#!/usr/bin/env python3
"""Development-time self-test of the monitors (not a registered command).

usage: tools/selftest.py C13 [mutant-name ...]      run the quick check of a property against seeded mutants
       tools/selftest.py --seeded [id ...]          run the checks against the kept sub-agent changes in /verif/seeded/<id>/patch.diff

A mutant is a small textual change of /repo/src that compiles and breaks the property.  It is applied to /repo's working
tree (so that the object cache makes it a one-file rebuild), the quick check is run, and the file is restored with
`git checkout` straight afterwards (also on Ctrl-C).  Expected: exit status 1 and a VIOLATION line.
Never run this while another check or the repository's own test suite is using /repo.
"""
import json
import os
import subprocess
import sys

V = os.path.dirname(os.path.dirname(os.path.abspath(__file__)))
REPO = "/repo"

# property -> list of (name, file relative to /repo, old, new)
MUTANTS = {
    "C17": [
        ("xor-becomes-or", "src/phreeqcpp/PBasic.cpp", "\t\t\tn.UU.val = ((long) n.UU.val) ^ ((long) n2.UU.val);", "\t\t\tn.UU.val = ((long) n.UU.val) | ((long) n2.UU.val);"),
        ("power-right-assoc-lost", "src/phreeqcpp/PBasic.cpp", "\t\tLINK->t = LINK->t->next;\n\t\tn2 = upexpr(LINK);\n\t\tif (n2.stringval)\n\t\t\ttmerr(\": not a number after ^\");", "\t\tLINK->t = LINK->t->next;\n\t\tn2 = factor(LINK);\n\t\tif (n2.stringval)\n\t\t\ttmerr(\": not a number after ^\");"),
        ("for-loop-bound-exclusive", "src/phreeqcpp/PBasic.cpp", "\t\t || *WITH->UU.U0.vp->UU.U0.val <= WITH->UU.U0.max)", "\t\t || *WITH->UU.U0.vp->UU.U0.val < WITH->UU.U0.max)"),
        ("le-comparison-mask", "src/phreeqcpp/PBasic.cpp", "\t\t\tf = (bool) ((n.UU.val == n2.UU.val && (unsigned long) k < 32 &&\n\t\t\t\t\t\t\t((1L << ((long) k)) & ((1L << ((long) tokeq)) |\n\t\t\t\t\t\t\t\t\t\t\t\t   (1L << ((long) tokge)) |\n\t\t\t\t\t\t\t\t\t\t\t\t   (1L << ((long) tokle)))) !=", "\t\t\tf = (bool) ((n.UU.val == n2.UU.val && (unsigned long) k < 32 &&\n\t\t\t\t\t\t\t((1L << ((long) k)) & ((1L << ((long) tokeq)) |\n\t\t\t\t\t\t\t\t\t\t\t\t   (1L << ((long) tokge)) |\n\t\t\t\t\t\t\t\t\t\t\t\t   (1L << ((long) toklt)))) !="),
        ("instr-zero-based", "src/phreeqcpp/PBasic.cpp", "\t\t\t\tn.UU.val = ((LDBLE)(cptr - string1)) + 1;", "\t\t\t\tn.UU.val = ((LDBLE)(cptr - string1));"),
        ("on-goto-off-by-one", "src/phreeqcpp/PBasic.cpp", "\twhile (i > 1 && !iseos(LINK))\n\t{\n\t\trequire(toknum, LINK);", "\twhile (i > 0 && !iseos(LINK))\n\t{\n\t\trequire(toknum, LINK);"),
        ("array-row-stride", "src/phreeqcpp/PBasic.cpp", "\t\tk = k * v->dims[i - 1] + j;", "\t\tk = k * (v->dims[i - 1] - (i > 2 ? 1 : 0)) + j;"),
        ("restore-ignores-line", "src/phreeqcpp/PBasic.cpp", "\t\tdataline = mustfindline(intexpr(LINK));\n\t\tif (phreeqci_gui)", "\t\tmustfindline(intexpr(LINK)); dataline = NULL;\n\t\tif (phreeqci_gui)"),
        ("type-mismatch-unchecked", "src/phreeqcpp/PBasic.cpp", "\t\tif (n.stringval != n2.stringval)\n\t\t\ttmerr(\": found char, but need a number for + or - \");", "\t\tif (n.stringval && !n2.stringval)\n\t\t\ttmerr(\": found char, but need a number for + or - \");"),
    ],
    "C18": [
        ("precipitate-constraint-sign", "src/phreeqcpp/inverse.cpp", "\t\t\tdelta[(size_t)col_phases + (size_t)i] = -1.0;", "\t\t\tdelta[(size_t)col_phases + (size_t)i] = 1.0;"),
        ("uncertainty-bound-doubled", "src/phreeqcpp/inverse.cpp", "\t\t\tmy_array[count_rows * max_column_count + (size_t)i] = -coef * f;\n\t\t\tsnprintf(token, sizeof(token), \"%s %s\", inv_ptr->elts[j].master->elt->name, \"eps+\");", "\t\t\tmy_array[count_rows * max_column_count + (size_t)i] = -2.0 * coef * f;\n\t\t\tsnprintf(token, sizeof(token), \"%s %s\", inv_ptr->elts[j].master->elt->name, \"eps+\");"),
        ("phase-stoichiometry", "src/phreeqcpp/inverse.cpp", "\t\t\tmy_array[(size_t)row * max_column_count + (size_t)column] =\n\t\t\t\trxn_ptr->token[j].coef * coef;", "\t\t\tmy_array[(size_t)row * max_column_count + (size_t)column] =\n\t\t\t\trxn_ptr->token[j].coef * coef * (rxn_ptr->token[j].coef > 1.5 ? 0.5 : 1.0);"),
        ("minimal-never-drops-second", "src/phreeqcpp/inverse.cpp", "\t\tif (solve_with_mask(inv_ptr, minimal_bits) == ERROR)\n\t\t{\n\t\t\tsave_bad(minimal_bits);\n\t\t\t/* put bit back */", "\t\tif (i == 1 || solve_with_mask(inv_ptr, minimal_bits) == ERROR)\n\t\t{\n\t\t\tif (i != 1) save_bad(minimal_bits);\n\t\t\t/* put bit back */"),
        ("range-min-is-max", "src/phreeqcpp/inverse.cpp", "\t\t\tif (f < 0)\n\t\t\t{\n\t\t\t\tmin_delta[i] = delta2[j];", "\t\t\tif (f > 0)\n\t\t\t{\n\t\t\t\tmin_delta[i] = delta2[j];"),
        ("adjustment-lower-bound-sign", "src/phreeqcpp/inverse.cpp", "\t\t\tmy_array[count_rows * max_column_count + (size_t)i] = -coef * f;\n\t\t\tmy_array[count_rows * max_column_count + (size_t)column] = -1.0 * f;", "\t\t\tmy_array[count_rows * max_column_count + (size_t)i] = -coef * f * 3;\n\t\t\tmy_array[count_rows * max_column_count + (size_t)column] = -1.0 * f;"),
    ],
    "C20": [
        ("gouy-chapman-constant", "src/phreeqcpp/model.cpp", "\t\t\t\tresidual[i] = sinh_constant * sqrt(mu_x) * sinh(x[i]->master[0]->s->la * LOG_10) -", "\t\t\t\tresidual[i] = 1.000001 * sinh_constant * sqrt(mu_x) * sinh(x[i]->master[0]->s->la * LOG_10) -"),
        ("ccm-capacitance", "src/phreeqcpp/model.cpp", "\t\t\t\t\tcharge_ptr->Get_capacitance0() * x[i]->master[0]->s->la * 2 * R_KJ_DEG_MOL *", "\t\t\t\t\t1.00001 * charge_ptr->Get_capacitance0() * x[i]->master[0]->s->la * 2 * R_KJ_DEG_MOL *"),
    ],
    "C19": [
        ("pr-b-constant", "src/phreeqcpp/prep.cpp", "phase_ptr->pr_b = 0.077796 * R * T_c / P_c;", "phase_ptr->pr_b = 0.078796 * R * T_c / P_c;"),
        ("kappa-term*", "src/phreeqcpp/prep.cpp", "kk = 0.37464 + oo * (1.54226 - 0.26992 * oo);", "kk = 0.37464 + oo * (1.54226 - 0.36992 * oo);"),
        ("phi-cross-term", "src/phreeqcpp/prep.cpp", "(B_r - 2.0 * phase_ptr->pr_aa_sum2 / a_aa_sum)", "(B_r - 2.0 * phase_ptr->pr_aa_sum2 / a_aa_sum * (phase_ptrs.size() > 1 ? 1.001 : 1.0))"),
        ("binary-parameter", "src/phreeqcpp/gases.cpp", "\t\tf = (1.0 - gas_pair_it->second);", "\t\tf = (1.0 - 0.5 * gas_pair_it->second);"),
    ],
    "C15": [
        ("micro-factor", "src/phreeqcpp/prep.cpp", "\t\telse if (c == 'u')\n\t\t{\n\t\t\tmoles *= 1e-6;", "\t\telse if (c == 'u')\n\t\t{\n\t\t\tmoles *= 1.0000001e-6;"),
        ("grams-to-moles-only-mg", "src/phreeqcpp/prep.cpp", "if (strstr(comp_ref.Get_units().c_str(), \"g/\") != NULL && comp_ref.Get_gfw() != 0.0)", "if (strstr(comp_ref.Get_units().c_str(), \"mg/\") != NULL && comp_ref.Get_gfw() != 0.0)"),
    ],
    "C02": [
        ("diffuse-layer-term", "src/phreeqcpp/step.cpp", "\t\t\t\t\tmaster_j_ptr->total += coef;", "\t\t\t\t\tmaster_j_ptr->total += coef * 1.0001;"),
        ("mix-cb", "src/phreeqcpp/step.cpp", "\tcb_x += solution_ptr->Get_cb() * extensive;", "\tcb_x += solution_ptr->Get_cb() * intensive;"),
        ("exchange-h-total", "src/phreeqcpp/step.cpp", "\t\t\tif (master_ptr->s == s_hplus)\n\t\t\t{\n\t\t\t\ttotal_h_x += coef;\n\t\t\t}\n\t\t\telse if (master_ptr->s == s_h2o)\n\t\t\t{\n\t\t\t\ttotal_o_x += coef;\n\t\t\t}\n\t\t\telse\n\t\t\t{\n\t\t\t\tmaster_ptr->total += coef;\n\t\t\t}\n\t\t}\n\t}\n\tif (exchange_ptr->Get_new_def())", "\t\t\tif (master_ptr->s == s_hplus)\n\t\t\t{\n\t\t\t\ttotal_h_x += coef;\n\t\t\t}\n\t\t\telse if (master_ptr->s == s_h2o)\n\t\t\t{\n\t\t\t\ttotal_o_x += coef;\n\t\t\t}\n\t\t\telse\n\t\t\t{\n\t\t\t\tmaster_ptr->total += coef * (coef > 1e-3 ? 1.00001 : 1.0);\n\t\t\t}\n\t\t}\n\t}\n\tif (exchange_ptr->Get_new_def())"),
    ],
    "C03": [
        # none.  Two threshold mutants in the inequality / equation set-up of ineq() (absent and supersaturated by less than 1e-4: leave the phase out) were tried:
        # the engine brings the phase in all the same (equi_delay keeps its equation for the first iterations), results are identical to the last digit even on
        # waters 5e-6 above saturation.  The first of them had been 'caught' by two cases of an earlier generator, by a path that the present one does not draw.
        # C03 is validated by its five seeded changes (seeded/C03-agent1..5) instead.
    ],
    "C12": [
        ("rk-c4", "src/phreeqcpp/kinetics.cpp", "250. / 621., c4 = 125. / 594., c6 = 512. / 1771., dc5 =", "250. / 621., c4 = 126. / 594., c6 = 512. / 1771., dc5 ="),
        ("rk-b32", "src/phreeqcpp/kinetics.cpp", "LDBLE b31 = 3. / 40., b32 = 9. / 40.,", "LDBLE b31 = 3. / 40., b32 = 9. / 41.,"),
        ("cvode-abstol-x1000", "src/phreeqcpp/kinetics.cpp", "Ith(kinetics_abstol, j + 1) = kinetics_comp_ptr->Get_tol();", "Ith(kinetics_abstol, j + 1) = kinetics_comp_ptr->Get_tol() * 1e7;"),
    ],
    "C11": [
        ("advection-skip-last-cell", "src/phreeqcpp/advection.cpp", "\t\tfor (i = count_ad_cells; i > 0; i--)\n\t\t{\n\t\t\t//solution_duplicate(i - 1, i);", "\t\tfor (i = count_ad_cells; i > 1; i--)\n\t\t{\n\t\t\t//solution_duplicate(i - 1, i);"),
        ("mix-asymmetric*", "src/phreeqcpp/transport.cpp", "temp_mix.Add(i + 1, m1[i]);", "temp_mix.Add(i + 1, m1[i] * 1.0001);"),
        ("mix-self-fraction*", "src/phreeqcpp/transport.cpp", "temp_mix.Add(i, 1.0 - m[i] - m1[i]);", "temp_mix.Add(i, 1.0 - m[i] - m1[i] + (i == 3 ? 1e-7 : 0.0));"),
    ],
    "C16": [
        ("davies-0.3", "src/phreeqcpp/model.cpp", "(muhalf / (1.0 + muhalf) - 0.3 * mu);", "(muhalf / (1.0 + muhalf) - 0.24 * mu);"),
        ("wateq-drop-b", "src/phreeqcpp/model.cpp", "\t\t\ts_x[i]->lg = -a * muhalf * s_x[i]->z * s_x[i]->z /\n\t\t\t\t(1.0 + s_x[i]->dha * b * muhalf) + s_x[i]->dhb * mu;", "\t\t\ts_x[i]->lg = -a * muhalf * s_x[i]->z * s_x[i]->z /\n\t\t\t\t(1.0 + s_x[i]->dha * b * muhalf) + s_x[i]->dhb * mu * (s_x[i]->z > 1.5 ? 0.999 : 1.0);"),
        ("llnl-bdot", "src/phreeqcpp/model.cpp", "bdot_llnl = (1 - f) * llnl_bdot[ifirst] + f * llnl_bdot[ilast];", "bdot_llnl = (1 - f) * llnl_bdot[ifirst] + f * llnl_bdot[ifirst];"),
        ("pitzer-osmotic*", "src/phreeqcpp/pitzer.cpp", "\tCOSMOT = 1.0 + 2.0 * OSMOT / OSUM;", "\tCOSMOT = 1.0 + 2.002 * OSMOT / OSUM;"),
        ("sit-osmotic", "src/phreeqcpp/sit.cpp", "OSMOT = -2.0*A/(B*B*B)*(T - 2.0*log(T) - 1.0/T);", "OSMOT = -2.0*A/(B*B*B)*(T - 2.0*log(T) - 1.0/T) * 1.001;"),
    ],
    "C01": [
        ("kcalc-log-term", "src/phreeqcpp/prep.cpp", "+ l_logk[T_A4] * log10(tempk)", "+ l_logk[T_A4] * log(tempk)"),
        ("kcalc-a5-term", "src/phreeqcpp/prep.cpp", "+ l_logk[T_A5] / (tempk * tempk)", "+ l_logk[T_A5] / (tempk * 298.15)"),
        ("kcal-factor", "src/phreeqcpp/read.cpp", "*delta_h *= JOULES_PER_CALORIE;", "*delta_h *= 4.18;"),
        ("vant-hoff-ref", "src/phreeqcpp/prep.cpp", "- l_logk[delta_h] * (298.15 - tempk) / (LOG_10 * me * 298.15)", "- l_logk[delta_h] * (298.0 - tempk) / (LOG_10 * me * 298.15)"),
    ],
    "C06": [
        ("getinstance-no-lock", "src/IPhreeqcLib.cpp", "\tmutex_lock(&map_lock);\n\tstd::map<size_t, IPhreeqc*>::iterator it = IPhreeqc::Instances.find(size_t(id));", "\tstd::map<size_t, IPhreeqc*>::iterator it = IPhreeqc::Instances.find(size_t(id));\n\tmutex_lock(&map_lock);"),
        ("static-counter-in-do_run", "src/IPhreeqc.cpp", "\tVERIF_POINT(\"do_run.enter\", this->Index, 0);", "\tVERIF_POINT(\"do_run.enter\", this->Index, 0);\n\tstatic int n_runs_total = 0; if (++n_runs_total < 0) return;"),
        ("index-outside-lock", "src/IPhreeqc.cpp", "\tmutex_lock(&map_lock);\n\tthis->Index = IPhreeqc::InstancesIndex++;", "\tthis->Index = IPhreeqc::InstancesIndex++;\n\tmutex_lock(&map_lock);"),
        ("shared-tk-cache", "src/phreeqcpp/transport.cpp", "LDBLE F_Re3 = F_C_MOL / (R_KJ_DEG_MOL * 1e3);", "LDBLE F_Re3 = F_C_MOL / (R_KJ_DEG_MOL * 1e3);\nstatic LDBLE verif_dummy_shared;"),
    ],
    "C14": [
        ("copy-range-off-by-one", "src/phreeqcpp/mainsubs.cpp", "for (size_t i = copy_pp_assemblage.start[j]; i <= copy_pp_assemblage.end[j]; i++)", "for (size_t i = copy_pp_assemblage.start[j]; i < copy_pp_assemblage.end[j]; i++)"),
        ("save-range-first-only", "src/phreeqcpp/mainsubs.cpp", "for (i = save.n_exchange_user + 1; i <= save.n_exchange_user_end; i++)", "for (i = save.n_exchange_user + 1; i < save.n_exchange_user_end; i++)"),
        ("components-skip-exchange", "src/phreeqcpp/Phreeqc.cpp", "\t\t\tcxxExchange entity = cit->second;\n\t\t\tentity.totalize();\n\t\t\taccumulator.add_extensive(entity.Get_totals(), 1.0);", "\t\t\tcxxExchange entity = cit->second;\n\t\t\tentity.totalize();"),
        ("delete-solution-keeps-last", "src/phreeqcpp/ReadClass.cxx", "\t\t\tfor (it = delete_info.Get_solution().Get_numbers().begin(); it != delete_info.Get_solution().Get_numbers().end(); it++)\n\t\t\t{\n\t\t\t\tRxn_solution_map.erase(*it);", "\t\t\tfor (it = delete_info.Get_solution().Get_numbers().begin(); it != delete_info.Get_solution().Get_numbers().end(); it++)\n\t\t\t{\n\t\t\t\tif (*it != 8) Rxn_solution_map.erase(*it);"),
    ],
    "C13": [
        ("f-index-shift", "src/IPhreeqc_interface_F.cpp", "padfstring(comp, ::GetComponent(*id, (*n) - 1), line_length);", "padfstring(comp, ::GetComponent(*id, (*n)), line_length);"),
        ("id-reuse", "src/IPhreeqc.cpp", "this->Index = IPhreeqc::InstancesIndex++;", "this->Index = IPhreeqc::Instances.size(); IPhreeqc::InstancesIndex++;"),
        ("wrong-forward", "src/IPhreeqcLib.cpp", "if (IPhreeqcPtr->GetLogFileOn())", "if (IPhreeqcPtr->GetLogStringOn())"),
        ("empty-name-accepted", "src/IPhreeqc.cpp", "void IPhreeqc::SetLogFileName(const char *filename)\n{\n\tif (filename && ::strlen(filename))", "void IPhreeqc::SetLogFileName(const char *filename)\n{\n\tif (filename)"),
        ("negative-current", "src/IPhreeqc.cpp", "VRESULT IPhreeqc::SetCurrentSelectedOutputUserNumber(int n)\n{\n\tif (0 <= n)", "VRESULT IPhreeqc::SetCurrentSelectedOutputUserNumber(int n)\n{\n\tif (-1 <= n)"),
        ("padlen", "src/IPhreeqc_interface_F.cpp", "    *len = c_len;", "    *len = sofar - 1;"),
        ("rowcountF", "src/IPhreeqc_interface_F.cpp", "\tif (rows > 0)\n\t{\n\t\trows -= 1;", "\tif (rows > 1)\n\t{\n\t\trows -= 1;"),
        ("bad-id-fallback", "src/IPhreeqcLib.cpp", "\tmutex_unlock(&map_lock);\n\tVERIF_POINT(\"getinstance.after_unlock\"", "\tif (!instance && id > 0 && !IPhreeqc::Instances.empty()) instance = IPhreeqc::Instances.begin()->second;\n\tmutex_unlock(&map_lock);\n\tVERIF_POINT(\"getinstance.after_unlock\""),
    ],
}


def sh(cmd, **kw):
    return subprocess.run(cmd, shell=isinstance(cmd, str), capture_output=True, text=True, **kw)


def clean_tree():
    r = sh(["git", "-C", REPO, "status", "--porcelain", "--", "src", "database"])
    return r.stdout.strip() == ""


def run_check(prop, env=None):
    e = dict(os.environ)
    if env:
        e.update(env)
    r = subprocess.run(["./check", prop, "--tier", "quick"], cwd=V, capture_output=True, text=True, env=e)
    keys = [l.strip() for l in r.stdout.split("\n") if l.strip().startswith("key=")]
    return r.returncode, keys, r.stdout[-1500:]


def restore_evidence(prop):
    sh(["git", "-C", V, "checkout", "--", "evidence/%s.json" % prop])


def mutants(prop, only):
    if not clean_tree():
        print("refusing: /repo has uncommitted changes under src/ or database/")
        return 2
    res = []
    for name, rel, old, new in MUTANTS.get(prop, []):
        if only and name not in only:
            continue
        path = os.path.join(REPO, rel)
        s = open(path).read()
        if s.count(old) != 1 and not name.endswith("*"):
            print("%-24s SKIP: anchor text occurs %d times in %s" % (name, s.count(old), rel))
            res.append((name, "skip"))
            continue
        try:
            open(path, "w").write(s.replace(old, new))
            rc, keys, tail = run_check(prop)
        finally:
            sh(["git", "-C", REPO, "checkout", "--", rel])
        verdict = "caught" if rc == 1 else ("MISSED" if rc == 0 else "harness-failure(rc=%d)" % rc)
        print("%-24s %s %s" % (name, verdict, keys[:2]))
        if rc not in (0, 1):
            print(tail)
        res.append((name, verdict))
    restore_evidence(prop)
    return 0 if all(v in ("caught",) for _, v in res) else 1


def seeded(only):
    if not clean_tree():
        print("refusing: /repo has uncommitted changes under src/ or database/")
        return 2
    sdir = os.path.join(V, "seeded")
    bad = 0
    for d in sorted(os.listdir(sdir)):
        if only and d not in only:
            continue
        meta = json.load(open(os.path.join(sdir, d, "meta.json")))
        patch = os.path.join(sdir, d, "patch.diff")
        props = meta.get("checks_expected", [meta["property"]])
        r = sh(["git", "-C", REPO, "apply", patch])
        if r.returncode:
            print("%-28s patch does not apply: %s" % (d, r.stderr[:200]))
            bad += 1
            continue
        try:
            for p in props:
                rc, keys, tail = run_check(p)
                print("%-28s %s: %s %s" % (d, p, "caught" if rc == 1 else ("MISSED" if rc == 0 else "rc=%d" % rc), keys[:2]))
                bad += rc != 1
        finally:
            sh(["git", "-C", REPO, "checkout", "--", "."])
            for p in props:
                restore_evidence(p)
    return 1 if bad else 0


if __name__ == "__main__":
    a = sys.argv[1:]
    if not a:
        print(__doc__)
        sys.exit(2)
    if a[0] == "--seeded":
        sys.exit(seeded(a[1:]))
    sys.exit(mutants(a[0], a[1:]))
