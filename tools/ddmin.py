#!/usr/bin/env python3
"""Line-wise delta debugging of a PHREEQC input against the asan vdrive: keeps the lines needed for a given text to
appear on stderr (a sanitizer frame) or for the process to die.  Development aid, not used by any registered check.
usage: ddmin.py INPUT DATABASE PATTERN [deliver]   (PATTERN: substring of stderr, or SIGNAL for any abnormal end)"""
import os, subprocess, sys, tempfile, glob
sys.path.insert(0, os.path.dirname(os.path.dirname(os.path.abspath(__file__))))


def fails(lines, db, pat, exe):
    text = "\n".join(lines) + "\n"
    with tempfile.TemporaryDirectory() as d:
        b = text.encode("latin-1")
        with open(os.path.join(d, "s.vd"), "wb") as f:
            f.write(("new a\nloaddb a %s\ntext t1 %d\n" % (db, len(b))).encode() + b + b"\nrun a @t1\n")
        try:
            p = subprocess.run([exe, "s.vd"], cwd=d, capture_output=True, timeout=60,
                               env=dict(os.environ, ASAN_OPTIONS="detect_leaks=0:abort_on_error=0", UBSAN_OPTIONS="print_stacktrace=1"))
        except subprocess.TimeoutExpired:
            return False
        err = p.stderr.decode("latin-1", "replace")
        return (p.returncode != 0) if pat == "SIGNAL" else (pat in err)


def main():
    inp, db, pat = sys.argv[1:4]
    exe = os.environ.get("VDRIVE") or sorted(glob.glob(os.path.join(os.path.dirname(os.path.dirname(os.path.abspath(__file__))), ".build", "asan-*", "vdrive")))[-1]
    lines = open(inp, encoding="latin-1").read().split("\n")
    assert fails(lines, db, pat, exe), "input does not fail"
    n = 2
    while len(lines) >= 2:
        chunk = max(1, len(lines) // n)
        reduced = False
        for i in range(0, len(lines), chunk):
            cand = lines[:i] + lines[i + chunk:]
            if cand and fails(cand, db, pat, exe):
                lines = cand
                n = max(n - 1, 2)
                reduced = True
                break
        if not reduced:
            if chunk == 1:
                break
            n = min(n * 2, len(lines))
    sys.stdout.write("\n".join(lines) + "\n")


if __name__ == "__main__":
    main()
