#!/usr/bin/env python3
"""Writes /verif/MANIFEST.json from the table below and validates it against the schema."""
import json, os, sys
V = os.path.dirname(os.path.dirname(os.path.abspath(__file__)))
sys.path.insert(0, V)
from tools.manifest_table import CHECKS, NOT_APPLICABLE, HOOK_COMMITS

ALL = ["C%02d" % i for i in range(1, 21)]
checks = []
for pid in ALL:
    if pid not in CHECKS:
        continue
    c = CHECKS[pid]
    checks.append({
        "property_id": pid,
        "quick_cmd": "./check %s --tier quick" % pid,
        "thorough_cmd": "./check %s --tier thorough" % pid,
        "evidence_file": "/verif/evidence/%s.json" % pid,
        "replay_cmd_template": "./check %s --replay {path}" % pid,
        "engine": c.get("engine", "vdrive+python-oracle"),
        "level_claimed": {"category": c.get("category", "exploration"), "text": c["level"], "design_ref": c.get("design_ref", "DESIGN.md section 3 " + pid)},
        "level_note": c["note"],
        "technique": c["technique"],
    })
na = [{"property_id": p, "reason": NOT_APPLICABLE[p]} for p in ALL if p not in CHECKS]
m = {
    "version": 1,
    "setup_cmd": "python3-vt -m vlib.build opt asan tsan",
    "hooks": {
        "guard": "IPHREEQC_VERIF",
        "enable": "checks compile /repo/src themselves (vlib/build.py) with -DIPHREEQC_VERIF -DNDEBUG -DSWIG_SHARED_OBJ -DUSE_PHRQ_ALLOC, one build per sanitizer flavour (opt, asan+ubsan, tsan, clang fuzz) into /verif/.build",
        "baseline_off_cmd": "cmake --build /repo/_build && ctest --test-dir /repo/_build -j1 --timeout 900",
        "source_commits": HOOK_COMMITS,
        "add_only": True,
    },
    "engines": [
        {"name": "vdrive+python-oracle", "path": "/verif/harness/vdrive.cpp", "serves_properties": [p for p in ALL if p in CHECKS and CHECKS[p].get("engine", "vdrive+python-oracle") == "vdrive+python-oracle"],
         "kind_free_text": "scenario interpreter that records every API call and every observable channel of the real library as an event log; Python oracles judge the logs"},
        {"name": "vthreads+tsan", "path": "/verif/harness/vthreads.cpp", "serves_properties": [p for p in ALL if p in CHECKS and CHECKS[p].get("engine") == "vthreads+tsan"],
         "kind_free_text": "multi-threaded scenario driver under ThreadSanitizer with delay injection at hook sites"},
    ],
    "checks": checks,
    "not_applicable": na,
    "notes": "Runtime monitoring and sanitizers only. Every verdict is 'held on the executions observed'. Known genuine defects are keyed in /verif/known_findings.json. See DESIGN.md.",
}
import jsonschema
jsonschema.validate(m, json.load(open("/root/.vp/MANIFEST.schema.json")))
json.dump(m, open(os.path.join(V, "MANIFEST.json"), "w"), indent=1)
print("MANIFEST.json: %d checks, %d not_applicable" % (len(checks), len(na)))
