"""C11 - transport only moves dissolved mass: conservation, exact shifts, bounded mixing.

Monitor: seeded columns run through ADVECTION or TRANSPORT; a generated USER_PUNCH records for every cell and every shift
(full precision from the value table) TOTMOLE and TOT of every element, SYS(element) (solution + reactants of the cell),
TOTMOLE of H and O, CHARGE_BALANCE and the mass of water.  Oracles over the recorded history:
 (a) closed / diffusion-only columns (equal lengths or multicomponent diffusion): sum over cells of every element's moles, of
     charge and of water is the same after every shift as at the first recorded shift (relative 1e-9);
 (b) pure advection (ADVECTION, or TRANSPORT forward with zero dispersivity and diffusion and flux boundaries): the totals of
     cell i after shift s equal those of cell i-1 after shift s-1, and cell 1 receives the inflow solution (relative 1e-12);
 (c) single diffusion coefficient, no solids: every element concentration of every cell at every shift lies inside the range
     spanned by the initial column, stagnant and boundary solutions (+1e-9 relative);
 (d) closed diffusion-only columns with exchangers / minerals: the column inventory including the solids (SYS) is constant.
"""
import os

from vlib import core, gens
from vlib.core import Result, HELD, VIOLATED, INCONCLUSIVE

PROP = "C11"
FLAVOURS = ["opt"]
RULE = ("cases: seeded columns of 1-40 cells (quick <= 16) with random inflow/initial/stagnant solutions of Na K Li Ca Mg / Cl Br N(5) S(6); kinds: closed-diffusion (equal or unequal "
        "lengths, multi_d on/off, implicit on/off, stagnant zones), pure-advection (ADVECTION keyword, or TRANSPORT with zero dispersion), dispersive transport (all direction x boundary "
        "pairs, dispersivities, diffusion coefficient, stagnant) and closed-diffusion with exchangers/minerals. distinct & non-trivial = distinct (kind, direction, boundary pair, "
        "stagnant, multi_d, implicit, length mode) tuples with >= 2 shifts and a non-uniform column")
ASSUME = ["columns are isothermal (25 C) so that no heat transport is started", "conservation in closed columns with a single diffusion coefficient is required only for equal cell lengths "
          "(the statement's condition); with unequal lengths it is required under multicomponent diffusion", "hull check only without multi_d (the statement: 'with a single diffusion coefficient')",
          "runs that report an error are inconclusive",
          "amounts the multicomponent-diffusion solver declares to have added ('balancing negative concentrations in MCD, added in total to the system: x moles El') enter the balance as a source",
          "stagnant zones: single diffusion coefficient, no solids, immobile water = theta_im/theta_m kg (the first-order exchange mixes solution fractions, so mass is conserved only for that ratio)",
          "pure-advection equality is judged at relative 1e-9 + 1e-14 mol/kgw (every cell is re-speciated after a shift)"]

CATS = [("Na", 1), ("K", 1), ("Li", 1), ("Ca", 2), ("Mg", 2)]
ANS = [("Cl", 1), ("Br", 1), ("N(5)", 1), ("S(6)", 2)]
ELS = [e for e, _ in CATS] + [e for e, _ in ANS]
BASE_EL = {"N(5)": "N", "S(6)": "S"}


def rand_solution(r, num, dilute=False):
    cs = {}
    ncat = r.randint(1, 3)
    nan = r.randint(1, 2)
    cats = r.sample(CATS, ncat)
    ans = r.sample(ANS[:3] if r.random() < 0.8 else ANS, nan)
    eq = 0.0
    for e, z in cats:
        c = gens.loguni(r, 1e-5, 2e-2) * (0.1 if dilute else 1)
        cs[e] = c
        eq += c * z
    w = [r.uniform(0.2, 1) for _ in ans]
    for (e, z), wi in zip(ans, w):
        cs[e] = eq * wi / sum(w) / z
    t = "SOLUTION %s\n temp 25\n pH 7 charge\n units mol/kgw\n" % num
    for e, c in cs.items():
        t += " %s %.8g\n" % (e, c)
    return t


def punch_block():
    heads, items = [], []
    heads += ["cell", "step", "kgw", "cb", "molH", "molO"]
    items += ["CELL_NO", "STEP_NO", 'TOT("water")', "CHARGE_BALANCE", 'TOTMOLE("H")', 'TOTMOLE("O")']
    for e in ELS:
        b = BASE_EL.get(e, e)
        heads += ["tm_%s" % b, "c_%s" % b, "sys_%s" % b]
        items += ['TOTMOLE("%s")' % b, 'TOT("%s")' % b, 'SYS("%s")' % b]
    prog = []
    ln = 10
    for i in range(0, len(items), 6):
        prog.append(" %d PUNCH %s" % (ln, ", ".join(items[i:i + 6])))
        ln += 10
    return "SELECTED_OUTPUT 1\n -reset false\nUSER_PUNCH 1\n -headings " + " ".join(heads) + "\n -start\n" + "\n".join(prog) + "\n -end\n", heads


def gen_cases(ctx):
    n = ctx.params.get("cases") or (150 if ctx.tier == "quick" else 3000)
    for i in range(n):
        yield dict(id="col%05d" % i, i=i)


def build(ctx, case):
    r = ctx.rng("col", case["i"])
    quick = ctx.tier == "quick"
    kind = r.choice(["closed", "closed", "advect", "advect_trn", "disp", "disp", "solids"])
    n = r.randint(1, 16 if quick else 40) if r.random() < 0.15 else r.randint(3, 16 if quick else 40)
    if kind in ("advect", "advect_trn"):
        n = max(n, 2)
    shifts = r.randint(2, 8)
    multi_d = kind in ("closed", "solids") and r.random() < 0.5
    # stagnant zones: single diffusion coefficient only (with -multi_d the engine itself warns that mixing factors must be given explicitly);
    # the immobile solutions get water = theta_im / theta_m so that the first-order exchange conserves mass
    stag = 1 if (kind in ("closed", "disp") and not multi_d and r.random() < 0.3 and n >= 2) else 0
    implicit = multi_d and r.random() < 0.4
    eqlen = True if (kind in ("closed", "solids") and not multi_d) else (r.random() < 0.6)
    t = "KNOBS\n -convergence_tolerance 1e-12\n -iterations 300\n"
    pb, heads = punch_block()
    t += pb
    ncell_all = n + (n + 1 if stag else 0) + 2
    sols = {}
    # a non-uniform column: 2-4 distinct waters distributed over the cells
    waters = [rand_solution(r, "XX", dilute=(k % 2 == 1)) for k in range(r.randint(2, 4))]
    cellnums = list(range(0, n + 2)) + (list(range(n + 2, 2 * n + 2)) if stag else [])
    edge = kind == "disp" and n >= 3 and r.random() < 0.35
    for k_, c in enumerate(cellnums):
        w = waters[k_] if k_ < 2 else r.choice(waters)      # inflow and first cell always differ
        if edge:
            w = waters[0] if c in (0, n + 1) else waters[1]      # a uniform dilute column between concentrated boundary waters: any overshoot leaves the hull
        t += w.replace("SOLUTION XX", "SOLUTION %d" % c)
        if stag and c > n + 1:
            t += " -water 0.5\n"
        sols[c] = w
    if kind == "solids":
        for c in range(1, n + 1):
            if r.random() < 0.7:
                t += "EXCHANGE %d\n X %s\n -equilibrate %d\n" % (c, gens.fmt(gens.loguni(r, 1e-3, 5e-2)), c)
            if r.random() < 0.3:
                t += "EQUILIBRIUM_PHASES %d\n Gypsum 0 %s\n" % (c, gens.fmt(r.choice([0, 0.01])))
    t += "END\n"
    t += "#SPLIT#"
    info = dict(kind=kind, n=n, shifts=shifts, stag=stag, multi_d=multi_d, implicit=implicit, eqlen=eqlen)
    if kind == "advect":
        t += "ADVECTION\n -cells %d\n -shifts %d\n -punch_cells 1-%d\n -punch_frequency 1\n -print_cells 1\n -print_frequency 1000\nEND\n" % (n, shifts, n)
        info.update(direction="forward", bc=("flux", "flux"))
        return t, heads, info, sols
    lengths = "%s" % gens.fmt(r.choice([1, 0.1, 0.02])) if eqlen else " ".join(gens.fmt(r.choice([0.01, 0.02, 0.05, 0.1])) for _ in range(n))
    if kind in ("closed", "solids"):
        direction, bc = "diffusion_only", ("closed", "closed")
        disp, diffc = 0.0, r.choice([1e-9, 3e-10, 2e-9])
    elif kind == "advect_trn":
        direction, bc = "forward", ("flux", "flux")
        disp, diffc = 0.0, 0.0
    else:
        direction = r.choice(["forward", "back", "diffusion_only"])
        bc = (r.choice(["flux", "constant", "closed"]), r.choice(["flux", "constant", "closed"]))
        disp, diffc = r.choice([0.0, 0.002, 0.01, 0.05]), r.choice([0.0, 1e-9, 3e-10])
    tstep = r.choice([100, 1000, 3600, 1e4])
    if edge:
        # boundary-dominated mixing: short end cells next to constant-concentration boundaries and a time step that needs several mixing sub-steps
        # (the number of sub-steps is derived from the largest mixing factor, the end cells' factors with the boundary solutions included)
        base = r.choice([1.0, 0.1, 0.05])
        ends = r.choice(["first", "last", "both"])
        ls = [base] * n
        bcl = [r.choice(["flux", "closed", "constant"]), r.choice(["flux", "closed", "constant"])]
        if ends in ("first", "both"):
            ls[0] = base * r.choice([0.1, 0.2, 0.5])
            bcl[0] = "constant"
        if ends in ("last", "both"):
            ls[-1] = base * r.choice([0.1, 0.2, 0.5])
            bcl[1] = "constant"
        lengths = " ".join(gens.fmt(x) for x in ls)
        direction, bc = "diffusion_only", tuple(bcl)
        disp, diffc = 0.0, 1e-9
        tstep = float(gens.fmt(r.choice([0.05, 0.3, 1.0, 3.0]) * base * base / diffc))
        info["eqlen"] = False
    t += "TRANSPORT\n -cells %d\n -shifts %d\n -lengths %s\n -time_step %s\n -flow_direction %s\n -boundary_conditions %s %s\n -dispersivities %s\n -diffusion_coefficient %s\n" % (
        n, shifts, lengths, gens.fmt(tstep), direction, bc[0], bc[1], gens.fmt(disp), gens.fmt(diffc))
    t += " -punch_cells 1-%d\n -punch_frequency 1\n -print_frequency 1000\n" % (2 * n + 1 if stag else n)
    if stag:
        t += " -stagnant 1 %s 0.3 0.15\n" % gens.fmt(r.choice([6.8e-6, 1e-5, 1e-6]))
    if multi_d:
        t += " -multi_d true 1e-9 0.3 0.05 1.0\n"
    if implicit:
        t += " -implicit true 1\n"
    t += "END\n"
    info.update(direction=direction, bc=bc, disp=disp, diffc=diffc)
    return t, heads, info, sols


def run_case(ctx, case):
    text, heads, info, sols = build(ctx, case)
    cwd = ctx.scratch(case["id"])
    s = core.Script()
    s.raw("new a")
    s.raw("loaddb a " + os.path.join(ctx.db, "phreeqc.dat"))
    t_def, t_trn = text.split("#SPLIT#")
    s.run("a", t_def)
    s.raw("snap a sew")
    s.run("a", t_trn)
    s.raw("snap a sew")
    run = core.run_vdrive(ctx.bin("opt"), s.bytes(), cwd, timeout=300)
    if core.process_failure(run):
        return Result(INCONCLUSIVE, reason="process failure")
    rr, sn = core.rets(run, "run"), core.rets(run, "snap")
    if len(rr) < 2 or rr[0].get("r") != 0 or rr[1].get("r") != 0 or len(sn) < 2 or not sn[0]["selout"] or not sn[1]["selout"]:
        et = ""
        for x in sn:
            et = et or x["error"].get("text", "").strip().split("\n")[0]
        if "Negative concentration" in et and not info["multi_d"]:
            # with a single diffusion coefficient every cell is a convex mix of its neighbours: a negative concentration means a mixing fraction left [0, 1]
            return Result(VIOLATED, key="C11/negative-concentration/%s" % info["kind"], what="%s: transport stops with '%s' (%s)" % (case["id"], " ".join(et.split())[:90], info),
                          sample=dict(id=case["id"], info=info))
        return Result(INCONCLUSIVE, reason="run reports errors: " + " ".join(et.split())[:50])

    def table(snap):
        cells = snap["selout"][0]["cells"]
        hd = [c[1] for c in cells[0]]
        out = []
        for row in cells[1:]:
            d = {h: float(c[1]) for h, c in zip(hd, row) if c[0] in "dl"}
            if "cell" in d and "step" in d:
                out.append(d)
        return out
    n, kind = info["n"], info["kind"]
    # first call: the initial-solution rows carry the solution number as cell number (first occurrence of each number)
    init = {}
    for d in table(sn[0]):
        c = int(d["cell"])
        if c not in init and c in sols:
            init[c] = d
    if len(init) < len(sols):
        return Result(INCONCLUSIVE, reason="initial rows missing (%d of %d)" % (len(init), len(sols)))
    trows = table(sn[1])
    by_step = {}
    for d in trows:
        by_step.setdefault(int(d["step"]), {})[int(d["cell"])] = d
    steps = sorted(by_step)
    if len(steps) < 2:
        return Result(INCONCLUSIVE, reason="fewer than 2 recorded shifts")
    findings = []
    els = [BASE_EL.get(e, e) for e in ELS]
    # the multicomponent-diffusion solver lifts absent elements to a floor concentration and says so:
    # "... balancing negative concentrations in MCD, added in total to the system:  2.0000e-13 moles K." - those declared amounts enter the balance
    import re
    declared = {}
    wt = sn[1]["warning"].get("text", "")
    for m in re.finditer(r"([0-9.]+e[-+]?\d+) moles ([A-Z][a-z]?)\b", wt):
        declared[m.group(2)] = declared.get(m.group(2), 0.0) + float(m.group(1))
    mobile = list(range(1, n + 1))
    allcells = mobile + (list(range(n + 2, 2 * n + 2)) if info["stag"] else [])
    nchk = 0
    worst = 0.0
    # ---------------------------------------------------------------- (a)/(d) conservation in closed columns
    if kind in ("closed", "solids"):
        ref = by_step[steps[0]]
        if all(c in ref for c in allcells):
            keys = (["sys_%s" % e for e in els] if kind == "solids" else ["tm_%s" % e for e in els] + ["molH", "molO"])
            for st in steps[1:]:
                cur = by_step[st]
                if not all(c in cur for c in allcells):
                    continue
                for k in keys:
                    a = sum(ref[c][k] for c in allcells)
                    b = sum(cur[c][k] for c in allcells)
                    nchk += 1
                    sc = max(abs(a), abs(b))
                    slack = 1.001 * declared.get(k.split("_")[-1], 0.0) * (1 if k[:3] in ("tm_", "sys") else 0)
                    if sc > 1e-14:
                        worst = max(worst, max(0.0, abs(a - b) - slack) / sc)
                        if abs(a - b) > 1e-9 * sc + slack:
                            floor_only = info["implicit"] and abs(a - b) <= 1e-11 * len(allcells) * max(1, st)
                            findings.append(("C11/conservation%s/%s%s%s%s" % ("-floor" if floor_only else "", kind, "/multi_d" if info["multi_d"] else "", "/implicit" if info["implicit"] else "",
                                                                           "/stagnant" if info["stag"] else ""),
                                             "%s: column inventory of %s changes from %.15g (shift %d) to %.15g (shift %d) in a closed diffusion-only column %s" % (case["id"], k, a, steps[0], b, st, info)))
                            break
                if kind == "closed":
                    a = sum(ref[c]["cb"] for c in allcells)
                    b = sum(cur[c]["cb"] for c in allcells)
                    tot = sum(abs(ref[c]["tm_%s" % e]) for c in allcells for e in els) + 1e-12      # every recorded ion, not four of them (a column of Li/Mg/Br waters has none of those)
                    if abs(a - b) > 1e-9 * tot + 1e-16:
                        findings.append(("C11/charge/%s" % kind, "%s: column charge changes from %.6e to %.6e eq (shift %d), ion inventory %.3e" % (case["id"], a, b, st, tot)))
                if findings:
                    break
    # ---------------------------------------------------------------- (b) pure advection
    if kind in ("advect", "advect_trn"):
        prev = {c: init[c] for c in range(0, n + 1)}
        for st in [x for x in steps if x > 0]:
            cur = by_step[st]
            if not all(c in cur for c in mobile):
                break
            for c in mobile:
                for e in els:
                    a, b = cur[c]["c_%s" % e], prev[c - 1]["c_%s" % e]
                    nchk += 1
                    sc = max(abs(a), abs(b))
                    if sc > 1e-14:
                        worst = max(worst, abs(a - b) / sc)
                        if abs(a - b) > 1e-9 * sc + 1e-14:
                            findings.append(("C11/advection-shift/%s" % kind, "%s: after shift %d cell %d has %s = %.15g mol/kgw, its upstream neighbour had %.15g before the shift (%s)" % (
                                case["id"], st, c, e, a, b, info)))
                            break
                if findings:
                    break
            if findings:
                break
            nxt = {0: init[0]}
            nxt.update({c: cur[c] for c in mobile})
            prev = nxt
    # ---------------------------------------------------------------- (c) hull
    if kind in ("disp", "closed", "advect", "advect_trn") and not info["multi_d"]:
        lo = {e: min(init[c]["c_%s" % e] for c in init) for e in els}
        hi = {e: max(init[c]["c_%s" % e] for c in init) for e in els}
        for st in steps:
            for c, d in by_step[st].items():
                for e in els:
                    v = d["c_%s" % e]
                    nchk += 1
                    tol = 1e-8 * max(hi[e], 1e-12) + 1e-15      # concentrations are per kg of water and the water mass itself moves by 1e-9 relative through speciation
                    if v < lo[e] - tol or v > hi[e] + tol:
                        findings.append(("C11/hull/%s" % kind, "%s: %s in cell %d after shift %d is %.12g mol/kgw, outside [%.12g, %.12g] spanned by the initial, stagnant and boundary solutions (%s)" % (
                            case["id"], e, c, st, v, lo[e], hi[e], info)))
                        break
                if findings:
                    break
            if findings:
                break
    # (c') the hull can only shrink: after every shift the column lies inside the hull of the column before that shift and the boundary solutions
    if kind in ("disp", "closed") and not info["multi_d"] and not findings:
        outside = [c for c in init if c not in mobile]          # boundary and stagnant solutions as defined
        prevcol = {c: init[c] for c in mobile if c in init}
        for st in [x for x in steps if x > 0]:
            cur = by_step[st]
            if not all(c in cur for c in mobile):
                break
            pool_ = list(prevcol.values()) + [init[c] for c in outside] + [cur[c] for c in cur if c not in mobile]
            for e in els:
                lo_, hi_ = min(d["c_%s" % e] for d in pool_), max(d["c_%s" % e] for d in pool_)
                tol = 1e-8 * max(hi_, 1e-12) + 1e-15
                for c in mobile:
                    v = cur[c]["c_%s" % e]
                    nchk += 1
                    if v < lo_ - tol or v > hi_ + tol:
                        findings.append(("C11/hull-step/%s" % kind, "%s: %s in cell %d after shift %d is %.12g mol/kgw, outside [%.12g, %.12g] spanned by the column before that shift and the boundary / stagnant solutions (%s)" % (
                            case["id"], e, c, st, v, lo_, hi_, info)))
                        break
                if findings:
                    break
            if findings:
                break
            prevcol = {c: cur[c] for c in mobile}
    uniform = all(abs(init[c]["c_%s" % e] - init[0]["c_%s" % e]) < 1e-15 for c in init for e in els)
    sig = "%s|%s|%s-%s|stag%d|md%d|imp%d|%s" % (kind, info.get("direction"), info.get("bc", ("", ""))[0], info.get("bc", ("", ""))[1], info["stag"], info["multi_d"], info["implicit"],
                                               "eq" if info["eqlen"] else "uneq")
    stats = {"n_checks": nchk, "worst_rel": worst, "n_rows": len(trows)}
    sample = dict(id=case["id"], info=info, shifts_recorded=len(steps), rows=len(trows), worst_rel=worst)
    if findings:
        k, w = findings[0]
        return Result(VIOLATED, key=k, what=w, findings=findings[1:], sigs=[sig], sample=sample, stats=stats)
    if nchk == 0 or uniform:
        return Result(INCONCLUSIVE, reason="nothing checked / uniform column")
    return Result(HELD, sigs=[sig], sample=sample, stats=stats)
