"""C13 - instance registry and C/C++/Fortran-glue bindings behave as one consistent API.

Monitor: vdrive (asan+ubsan build) executes generated call histories over several instances. At every probe point
each accessor is called through the C++ method, the C function and the *F glue function on the same object
(`probe3`), and the results are recorded. The oracle is an executable reference model of the registry (ids strictly
increasing, never reused; live set) and of the per-instance settings store (switches, file names with their documented
defaults, current user number, per-user-number maps, accumulated lines, AddError/AddWarning counters), plus the
binding relations (equal results; Fortran: 1-based index, blank padding, reported length, row count minus heading,
long -> double). Calls with ids that are not live must return the documented invalid-instance result and leave the
digest of every live instance unchanged.
"""
import itertools
import os

from vlib import core
from vlib.core import Result, HELD, VIOLATED, INCONCLUSIVE

PROP = "C13"
FLAVOURS = ["asan"]
RULE = ("cases: (a) bounded-exhaustive registry sequences (create through C++/C/Fortran glue, destroy first/last live, destroy dead, destroy never-issued, "
        "look-up of every id ever seen) up to length 3 (quick) / 4 (thorough), (b) seeded random histories of 25-70 operations over up to 4 live instances "
        "(setters with valid/NULL/empty/odd arguments through a random binding, current-number changes incl. negative/undefined, loads, runs defining several "
        "SELECTED_OUTPUT numbers, failing run, accumulate/clear/run-accumulated, AddError/AddWarning, invalid-id bursts, three-binding probes incl. table cells). "
        "distinct & non-trivial = distinct (function, id status, argument class) triples whose results were compared across bindings and/or with the model")
ASSUME = ["NULL is passed only where the statement names it (file-name setters)",
          "after a failing run the generator reloads the database before continuing (C08's precondition)",
          "invalid-instance results: IPQ_BADINSTANCE for int functions (0 also admitted for the four *StringLineCount functions, on which the header is silent), "
          "'' or '<Function>: Invalid instance id.' for string functions",
          "the Fortran 90 module source is not exercised (no Fortran compiler); only the C-callable *F glue it binds to"]

BAD = -6
INVALIDARG = -3
SWITCHES = ["OutputFileOn", "OutputStringOn", "LogFileOn", "LogStringOn", "DumpFileOn", "DumpStringOn", "ErrorFileOn", "ErrorStringOn", "ErrorOn"]
NAMES = ["OutputFileName", "ErrorFileName", "LogFileName", "DumpFileName"]
LINECOUNT0 = {"GetDumpStringLineCount", "GetLogStringLineCount", "GetOutputStringLineCount", "GetSelectedOutputStringLineCount"}
INT_GETTERS = ["GetComponentCount", "GetCurrentSelectedOutputUserNumber", "GetDumpStringLineCount", "GetErrorStringLineCount", "GetLogStringLineCount",
               "GetOutputStringLineCount", "GetSelectedOutputStringLineCount", "GetWarningStringLineCount", "GetSelectedOutputColumnCount",
               "GetSelectedOutputCount", "GetSelectedOutputRowCount"]
BOOL_GETTERS = ["GetDumpFileOn", "GetDumpStringOn", "GetErrorFileOn", "GetErrorOn", "GetErrorStringOn", "GetLogFileOn", "GetLogStringOn", "GetOutputFileOn",
                "GetOutputStringOn", "GetSelectedOutputFileOn", "GetSelectedOutputStringOn"]
FN_GETTERS = ["GetDumpFileName", "GetErrorFileName", "GetLogFileName", "GetOutputFileName", "GetSelectedOutputFileName"]
STR_GETTERS = ["GetDumpString", "GetErrorString", "GetLogString", "GetOutputString", "GetSelectedOutputString", "GetWarningString"]
LINE_GETTERS = ["GetComponent", "GetDumpStringLine", "GetErrorStringLine", "GetLogStringLine", "GetOutputStringLine", "GetSelectedOutputStringLine", "GetWarningStringLine"]
EMPTY_ON_BAD = {"GetDumpFileName", "GetErrorFileName", "GetLogFileName", "GetOutputFileName", "GetSelectedOutputFileName", "GetDumpString", "GetLogString",
                "GetOutputString", "GetSelectedOutputString"}

RUNS = {
    "r1": ("SOLUTION 1\n Na 1\n Cl 1\nSELECTED_OUTPUT 1\n -totals Na Cl\nUSER_PUNCH 1\n -headings a b\n 10 PUNCH STEP_NO, \"txt\"\nREACTION 1\n NaCl 1\n 1 2 3 mmol\nEND\n", [1]),
    "r2": ("SOLUTION 1\n Ca 1\n C(4) 2\nSELECTED_OUTPUT 2\n -reset false\n -pH\n -totals Ca\nSELECTED_OUTPUT 5\n -high_precision true\n -molalities Ca+2 CO3-2\n"
           "EQUILIBRIUM_PHASES 1\n Calcite 0 1\nEND\n", [2, 5]),
    "r3": ("SOLUTION 1\n K 1\nKNOBS\n -logfile true\nDUMP\n -all\nEND\nUSE solution 1\nREACTION 1\n KCl 1\n 1 mmol\nEND\n", []),
    "r4": ("SOLUTION 1\n pH 7 charge\n Na 1\n Cl 5\nSELECTED_OUTPUT 3\n -si Halite\nEND\n", [3]),
}
# a table that holds the heading row only (-inverse_modeling rows never end a table row, see C05's known finding): RowCountF must report 0
from props.c05 import INVERSE as _INV
RUNS["r5"] = ("SELECTED_OUTPUT 6\n -reset false\n -inverse_modeling true\n" + _INV + "END\n", [6])
BAD_RUN = "SOLUTION 1\n Na 1\nREACTION 1\n Nosuchphase 1\n 1 mmol\nEND\n"
ACC = ["SOLUTION 7", " Mg 2", " Cl 4", "END"]


class Model:
    def __init__(self):
        self.next_id = 0
        self.inst = {}      # slot -> dict
        self.ever = []      # slots in creation order

    def create(self, slot, kind):
        i = self.next_id
        self.next_id += 1
        self.inst[slot] = dict(
            id=i, live=True, kind=kind, sw={k: 0 for k in SWITCHES}, cur=1, sfo={1: 0}, sso={1: 0}, sfn={1: "selected_1.%d.out" % i},
            fn={"OutputFileName": "phreeqc.%d.out" % i, "ErrorFileName": "phreeqc.%d.err" % i, "LogFileName": "phreeqc.%d.log" % i, "DumpFileName": "dump.%d.out" % i},
            db=False, acc=[], acc_pending=False, nerr=0, nwarn=0, errtxt="", warntxt="", defined=set(), failed=False)
        self.inst[slot]["sw"]["ErrorStringOn"] = 1
        self.inst[slot]["sw"]["ErrorOn"] = 1
        self.ever.append(slot)
        return i

    def live(self):
        return [s for s in self.ever if self.inst[s]["live"]]

    def dead(self):
        return [s for s in self.ever if not self.inst[s]["live"]]


class Gen:
    """emits script lines and, for each, a checker(ret_record) -> None | (key, what)"""

    def __init__(self, ctx, rng):
        self.ctx, self.rng = ctx, rng
        self.s = core.Script()
        self.m = Model()
        self.checks = []      # one per script op (in order)
        self.sigs = set()
        self.nslot = 0
        self.ncmp = 0

    # ------------------------------------------------------------------ plumbing
    def op(self, line, checker=None):
        self.s.raw(line)
        self.checks.append((line, checker))

    def sig(self, fn, status, argclass):
        self.sigs.add("%s|%s|%s" % (fn, status, argclass))

    def expect_r(self, fn, want, status="live", argclass="-"):
        self.sig(fn, status, argclass)

        def chk(rec, want=want, fn=fn):
            if "exc" in rec:
                return ("exception/%s" % fn, "%s threw %s" % (fn, rec["exc"]))
            if callable(want):
                return want(rec)
            if rec.get("r") != want:
                return ("model/%s/%s" % (fn, status), "%s (%s id, %s) returned %r, reference model says %r" % (fn, status, argclass, rec.get("r"), want))
        return chk

    # ------------------------------------------------------------------ registry ops
    def create(self, kind=None):
        kind = kind or self.rng.choice("pcf")
        slot = "s%d" % self.nslot
        self.nslot += 1
        want = self.m.create(slot, kind)
        self.op({"p": "new", "c": "cnew", "f": "fnew"}[kind] + " " + slot, self.expect_r("Create/" + kind, want, "new"))
        return slot

    def destroy(self, slot, how=None):
        mi = self.m.inst[slot]
        if how is None:
            how = self.rng.choice(["del", "cdel", "fdel"])
        if mi["live"]:
            mi["live"] = False
            # 'del' on a C++-owned object is a plain delete (returns 0 from the harness)
            self.op("%s %s" % (how, slot), self.expect_r("Destroy/" + how, 0, "live"))
        else:
            if how == "del":
                how = "cdel"
            self.op("%s %s" % (how, slot), self.expect_r("Destroy/" + how, BAD, "destroyed"))

    def destroy_never(self):
        n = self.rng.choice([-1, -7, -2147483647, self.m.next_id + 3, self.m.next_id + 1000, 2147483647])
        b = self.rng.choice("cf")
        self.op("bind zz %d" % n)
        self.op("call zz %s DestroyIPhreeqc" % b, self.expect_r("DestroyIPhreeqc", BAD, "negative" if n < 0 else "never-issued", b))

    def look_all(self):
        """every id ever handed out: live ones answer with their own default/explicit output file name (which embeds the id), dead ones with ''"""
        for slot in self.m.ever:
            mi = self.m.inst[slot]
            b = self.rng.choice("cf")
            want = mi["fn"]["OutputFileName"] if mi["live"] else ""
            self.op("call %s %s GetOutputFileName" % (slot, b), self.expect_r("GetOutputFileName", want, "live" if mi["live"] else "destroyed", b))

    # ------------------------------------------------------------------ settings
    def set_switch(self, slot):
        mi = self.m.inst[slot]
        b = self.rng.choice("pcf")
        which = self.rng.choice(SWITCHES + ["SelectedOutputFileOn", "SelectedOutputStringOn"])
        v = self.rng.choice([0, 1, 1, 2, -1, 77])
        want = None if b == "p" else 0
        if which == "SelectedOutputFileOn":
            mi["sfo"][mi["cur"]] = 1 if v else 0
        elif which == "SelectedOutputStringOn":
            mi["sso"][mi["cur"]] = 1 if v else 0
        else:
            mi["sw"][which] = 1 if v else 0
        self.op("call %s %s Set%s %d" % (slot, b, which, v), self.expect_r("Set" + which, want, "live", "%s:%s" % (b, "zero" if v == 0 else ("one" if v == 1 else "other"))))

    def set_name(self, slot):
        mi = self.m.inst[slot]
        b = self.rng.choice("pcf")
        which = self.rng.choice(NAMES + ["SelectedOutputFileName"])
        kind = self.rng.choice(["name", "name", "name", "null", "empty", "long"])
        if kind == "name":
            arg = "f_%s_%d.txt" % (which[:3].lower(), self.rng.randint(0, 99))
        elif kind == "long":
            arg = "L" + "x" * self.rng.choice([100, 200, 240]) + ".txt"
        else:
            arg = "%NULL" if kind == "null" else "%EMPTY"
        if kind in ("name", "long"):
            if which == "SelectedOutputFileName":
                mi["sfn"][mi["cur"]] = arg
            else:
                mi["fn"][which] = arg
        want = None if b == "p" else 0
        self.op("call %s %s Set%s %s" % (slot, b, which, arg), self.expect_r("Set" + which, want, "live", "%s:%s" % (b, kind)))

    def set_cur(self, slot):
        mi = self.m.inst[slot]
        b = self.rng.choice("pcf")
        n = self.rng.choice([-5, -1, 0, 1, 1, 2, 3, 5, 6, 6, 77, 2147483647])
        if n >= 0:
            mi["cur"] = n
            want, cls = 0, ("defined" if n in mi["defined"] else "undefined")
        else:
            want, cls = INVALIDARG, "negative"
        self.op("call %s %s SetCurrentSelectedOutputUserNumber %d" % (slot, b, n), self.expect_r("SetCurrentSelectedOutputUserNumber", want, "live", b + ":" + cls))

    def load(self, slot):
        mi = self.m.inst[slot]
        b = self.rng.choice("pcf")
        touched = sorted(n for n in set(mi["sfo"]) | set(mi["sso"]) if n != 1 and (mi["sfo"].get(n) or mi["sso"].get(n)))
        mi.update(cur=1, sfo={1: 0}, sso={1: 0}, db=True, acc=[], acc_pending=False, nerr=0, nwarn=0, errtxt="", warntxt="", defined=set(), failed=False)
        self.op("call %s %s LoadDatabase %s" % (slot, b, os.path.join(self.ctx.db, "phreeqc.dat")), self.expect_r("LoadDatabase", 0, "live", b))
        # every user number whose switches were on before the load is looked at again: the load puts all of them back to their defaults, not only number 1
        if touched and self.rng.random() < 0.7:
            for n in touched[:3]:
                b2 = self.rng.choice("pcf")
                mi["cur"] = n
                self.op("call %s %s SetCurrentSelectedOutputUserNumber %d" % (slot, b2, n), self.expect_r("SetCurrentSelectedOutputUserNumber", 0, "live", b2 + ":after-load"))
                self.probe(slot)

    def run(self, slot):
        mi = self.m.inst[slot]
        b = self.rng.choice("pcf")
        if self.rng.random() < 0.12:
            t = self.s.text(BAD_RUN)

            def chk(rec):
                if "exc" in rec:
                    return ("exception/RunString", "RunString threw %s" % rec["exc"])
                if not (isinstance(rec.get("r"), int) and rec["r"] > 0):
                    return ("model/RunString/bad-input", "RunString of an input naming an undefined reactant returned %r (expected > 0)" % rec.get("r"))
            self.op("call %s %s RunString %s" % (slot, b, t), chk)
            self.sig("RunString", "live", b + ":failing")
            self.load(slot)       # C08 precondition
            return
        name = self.rng.choice(sorted(RUNS))
        text, nums = RUNS[name]
        t = self.s.text(text)
        how = self.rng.choice(["RunString", "RunString", "RunFile"])
        if how == "RunFile":
            fn = "in_%s.pqi" % name
            self.op("writefile %s %s" % (fn, t))
            arg = fn
        else:
            arg = t
        mi["defined"] |= set(nums)     # SELECTED_OUTPUT definitions persist until the next load
        mi["acc"], mi["acc_pending"] = [], False      # RunString/RunFile deliberately clear the accumulated lines ("clear accumulated" in IPhreeqc.cpp)
        mi["nerr"], mi["nwarn"], mi["errtxt"], mi["warntxt"] = 0, None, "", None
        for n in nums:
            if n not in mi["sfn"]:
                mi["sfn"][n] = None     # filled in by the run (default name); no prediction
        self.op("call %s %s %s %s" % (slot, b, how, arg), self.expect_r(how, 0, "live", b))

    def accumulate(self, slot):
        mi = self.m.inst[slot]
        k = self.rng.choice(["acc", "acc", "clear", "runacc", "get"])
        b = self.rng.choice("pcf")
        if k == "acc":
            if mi["acc_pending"]:
                mi["acc"], mi["acc_pending"] = [], False
            line = ACC[len(mi["acc"]) % len(ACC)]
            mi["acc"].append(line)
            mi["nerr"], mi["nwarn"], mi["errtxt"], mi["warntxt"] = 0, 0, "", ""
            t = self.s.text(line)
            self.op("call %s %s AccumulateLine %s" % (slot, b, t), self.expect_r("AccumulateLine", 0, "live", b))
        elif k == "clear":
            mi["acc"], mi["acc_pending"] = [], False
            self.op("call %s %s ClearAccumulatedLines" % (slot, b), self.expect_r("ClearAccumulatedLines", None if b == "p" else 0, "live", b))
        elif k == "get":
            want = "".join(x + "\n" for x in mi["acc"])
            self.op("call %s p GetAccumulatedLines" % slot, self.expect_r("GetAccumulatedLines", want, "live", "n=%d" % min(len(mi["acc"]), 3)))
        elif k == "runacc" and mi["db"] and mi["acc"] and len(mi["acc"]) % len(ACC) == 0:
            mi["acc_pending"] = True
            mi["nerr"], mi["nwarn"], mi["errtxt"], mi["warntxt"] = 0, None, "", None
            self.op("call %s %s RunAccumulated" % (slot, b), self.expect_r("RunAccumulated", 0, "live", b))

    def add_msg(self, slot):
        mi = self.m.inst[slot]
        b = self.rng.choice("pcf")
        if self.rng.random() < 0.5:
            txt = "custom error %d\n" % self.rng.randint(0, 9)
            want = None if mi["nerr"] is None else mi["nerr"] + 1
            if mi["nerr"] is not None:
                mi["nerr"] += 1
            if mi["errtxt"] is not None:
                mi["errtxt"] += txt
            t = self.s.text(txt)

            def chk(rec, want=want, mi=mi):
                if "exc" in rec:
                    return ("exception/AddError", rec["exc"])
                if want is None:
                    mi_nerr = rec.get("r")
                    return None
                if rec.get("r") != want:
                    return ("model/AddError/count", "AddError returned %r, model (count since the last clearing call) says %r" % (rec.get("r"), want))
            self.op("call %s %s AddError %s" % (slot, b, t), chk)
            self.sig("AddError", "live", b)
        else:
            txt = "custom warning %d\n" % self.rng.randint(0, 9)
            want = None if mi["nwarn"] is None else mi["nwarn"] + 1
            if mi["nwarn"] is not None:
                mi["nwarn"] += 1
            if mi["warntxt"] is not None:
                mi["warntxt"] += txt
            t = self.s.text(txt)

            def chk(rec, want=want):
                if "exc" in rec:
                    return ("exception/AddWarning", rec["exc"])
                if want is not None and rec.get("r") != want:
                    return ("model/AddWarning/count", "AddWarning returned %r, model says %r" % (rec.get("r"), want))
            self.op("call %s %s AddWarning %s" % (slot, b, t), chk)
            self.sig("AddWarning", "live", b)

    # ------------------------------------------------------------------ probes
    def probe(self, slot, cells=False):
        mi = self.m.inst[slot]
        snap = dict(live=mi["live"], id=mi["id"], sw=dict(mi["sw"]), fn=dict(mi["fn"]), cur=mi["cur"], sfo=dict(mi["sfo"]), sso=dict(mi["sso"]), sfn=dict(mi["sfn"]),
                    errtxt=mi["errtxt"], warntxt=mi["warntxt"], defined=set(mi["defined"]), db=mi["db"])
        g = self

        def chk(rec, snap=snap, slot=slot):
            return check_probe(g, rec, snap, slot)
        self.op("probe3 %s%s" % (slot, " cells" if cells else ""), chk)
        if cells and mi["live"]:
            mi["nerr"], mi["errtxt"] = None, None      # GetSelectedOutputValue clears/adds error text

    def invalid_burst(self):
        """calls with ids that are not live; every live instance's digest must be unchanged"""
        live = self.m.live()
        for s in live:
            # snap reads table cells, and GetSelectedOutputValue clears the error text: the first snap settles that, the second is the reference
            self.op("snap %s gc" % s)
            self.m.inst[s]["nerr"], self.m.inst[s]["errtxt"] = None, None
        for s in live:
            self.op("snap %s gc" % s)
        first = len(self.checks) - len(live)
        targets = []
        for d in self.m.dead():
            targets.append((d, "destroyed"))
        n = self.rng.choice([-1, -3, self.m.next_id, self.m.next_id + 17, 99999])
        self.op("bind zz %d" % n)
        targets.append(("zz", "negative" if n < 0 else "never-issued"))
        tgt, status = self.rng.choice(targets)
        calls = [("SetOutputFileOn", "1"), ("SetOutputStringOn", "1"), ("SetDumpStringOn", "1"), ("SetLogFileOn", "1"), ("SetErrorOn", "0"), ("SetErrorStringOn", "0"),
                 ("SetSelectedOutputFileOn", "1"), ("SetSelectedOutputStringOn", "1"), ("SetCurrentSelectedOutputUserNumber", "9"),
                 ("SetOutputFileName", "evil.out"), ("SetDumpFileName", "evil.dmp"), ("SetLogFileName", "evil.log"), ("SetErrorFileName", "evil.err"),
                 ("SetSelectedOutputFileName", "evil.sel"), ("AddError", "evil"), ("AddWarning", "evil"), ("AccumulateLine", "evil"),
                 ("ClearAccumulatedLines", ""), ("LoadDatabase", os.path.join(self.ctx.db, "pitzer.dat")), ("RunString", "evil"), ("RunAccumulated", ""),
                 ("RunFile", "evil.pqi"), ("LoadDatabaseString", "evil"), ("DestroyIPhreeqc", "")]
        for fn, arg in self.rng.sample(calls, self.rng.randint(4, 10)):
            b = self.rng.choice("cf")
            self.op(("call %s %s %s %s" % (tgt, b, fn, arg)).rstrip(), self.expect_r(fn, BAD, status, b))
        self.probe_invalid(tgt, status)
        # digests after
        for k, s in enumerate(live):
            idx_before = first + k

            def chk(rec, idx_before=idx_before, s=s, status=status):
                before = self._rets[idx_before]
                a = {k: v for k, v in before.items() if k not in ("seq", "t")}
                b2 = {k: v for k, v in rec.items() if k not in ("seq", "t")}
                if a != b2:
                    diff = [k for k in a if a.get(k) != b2.get(k)]
                    return ("invalid-id-changed-live-instance/%s" % status, "calls with a %s id changed live instance %s: fields %s differ (%r -> %r)" % (
                        status, s, diff, {k: a.get(k) for k in diff[:2]}, {k: b2.get(k) for k in diff[:2]}))
            self.op("snap %s gc" % s, chk)
            self.sig("digest-unchanged", status, "live-instance")

    def probe_invalid(self, tgt, status):
        g = self

        def chk(rec, status=status):
            return check_probe_invalid(g, rec, status)
        self.op("probe3 %s cells" % tgt, chk)


def _padok(x):
    return x.get("pad_ok", 1) == 1 and x.get("guard_ok", 1) == 1 and x.get("short_ok", 1) == 1      # short_ok: exact-fit / too-short buffers get the first characters, full length reported


def check_probe_invalid(g, rec, status):
    if "exc" in rec:
        return ("exception/probe-invalid", rec["exc"])
    if rec.get("has_obj") != 0:
        return None
    for fn, v in rec["g"].items():
        for b in "cf":
            x = v.get(b, {})
            if "skip" in x or fn == "GetVersionString":
                continue
            r = x.get("r")
            g.sig(fn, status, b)
            g.ncmp += 1
            if fn in INT_GETTERS or fn in BOOL_GETTERS:
                ok = r == BAD or (r == 0 and fn in LINECOUNT0)
            else:
                ok = r == "" or r == "%s: Invalid instance id.\n" % fn
                if b == "f" and ok:
                    ok = _padok(x) and x.get("flen") == len(r)
            if not ok:
                return ("invalid-id-result/%s" % fn, "%s through %s with a %s id returned %r (documented: IPQ_BADINSTANCE / empty string / 'Invalid instance id' message)" % (fn, b, status, r))
    for fn, v in rec["li"].items():
        for idx, trio in v.items():
            if idx == "count":
                continue
            for b in "cf":
                r = trio.get(b, {}).get("r")
                g.sig(fn, status, b + ":idx")
                g.ncmp += 1
                if fn == "GetNthSelectedOutputUserNumber":
                    ok = r == BAD
                else:
                    ok = r == "" or r == "%s: Invalid instance id.\n" % fn
                if not ok:
                    return ("invalid-id-result/%s" % fn, "%s(%s) through %s with a %s id returned %r" % (fn, idx, b, status, r))
    for c in rec.get("cells", []):
        for b in "cf":
            x = c["v"].get(b, {})
            g.sig("GetSelectedOutputValue", status, b)
            if x.get("r") != BAD:
                return ("invalid-id-result/GetSelectedOutputValue", "GetSelectedOutputValue through %s with a %s id returned %r" % (b, status, x.get("r")))
        x = c["v2"].get("c", {})
        if x.get("r") != BAD or x.get("guard_ok") != 1:
            return ("invalid-id-result/GetSelectedOutputValue2", "GetSelectedOutputValue2 with a %s id returned %r" % (status, x.get("r")))
    return None


def _fmt_e(d):
    return "%23.15e" % d


def check_probe(g, rec, snap, slot):
    if "exc" in rec:
        return ("exception/probe", rec["exc"])
    if not snap["live"]:
        return check_probe_invalid(g, rec, "destroyed")
    if rec.get("has_obj") != 1:
        return ("harness/no-object", "live instance %s has no object in the harness" % slot)
    G = rec["g"]
    # ---- binding relations
    for fn, v in G.items():
        p, c, f = v.get("p", {}), v.get("c", {}), v.get("f", {})
        g.ncmp += 1
        if fn in INT_GETTERS or fn in BOOL_GETTERS:
            g.sig(fn, "live", "pcf")
            wantf = c.get("r")
            if fn == "GetSelectedOutputRowCount" and isinstance(wantf, int) and wantf > 0:
                wantf -= 1
            if p.get("r") != c.get("r") or f.get("r") != wantf:
                return ("binding/%s" % fn, "%s on instance %s: C++ %r, C %r, Fortran glue %r (expected %r)" % (fn, slot, p.get("r"), c.get("r"), f.get("r"), wantf))
            if fn in BOOL_GETTERS and c.get("r") not in (0, 1):
                return ("binding/%s" % fn, "%s returned %r, not 0/1" % (fn, c.get("r")))
        elif fn in FN_GETTERS or fn == "GetVersionString":
            g.sig(fn, "live", "pcf")
            if p.get("r") != c.get("r") or f.get("r") != c.get("r") or f.get("flen") != len(c.get("r") or "") or not _padok(f):
                return ("binding/%s" % fn, "%s on %s: C++ %r, C %r, Fortran glue %r len %r pad_ok %r guard_ok %r short_ok %r" % (
                    fn, slot, p.get("r"), c.get("r"), f.get("r"), f.get("flen"), f.get("pad_ok"), f.get("guard_ok"), f.get("short_ok")))
        else:
            g.sig(fn, "live", "pc")
            if p.get("r") != c.get("r"):
                return ("binding/%s" % fn, "%s on %s differs between C++ and C: %r vs %r" % (fn, slot, (p.get("r") or "")[:80], (c.get("r") or "")[:80]))
    for fn, v in rec["li"].items():
        cnt = v["count"]
        for idx, trio in v.items():
            if idx == "count":
                continue
            i = int(idx)
            p, c, f = trio.get("p", {}), trio.get("c", {}), trio.get("f", {})
            inrange = 0 <= i < cnt
            g.sig(fn, "live", "in-range" if inrange else ("negative" if i < 0 else "past-end"))
            g.ncmp += 1
            if fn == "GetNthSelectedOutputUserNumber":
                if not (p.get("r") == c.get("r") == f.get("r")):
                    return ("binding/%s" % fn, "%s(%d) on %s: C++ %r C %r Fortran glue(n+1) %r" % (fn, i, slot, p.get("r"), c.get("r"), f.get("r")))
                if not inrange and c.get("r") != INVALIDARG:
                    return ("model/%s/out-of-range" % fn, "%s(%d) with %d blocks returned %r, expected IPQ_INVALIDARG" % (fn, i, cnt, c.get("r")))
                if inrange and not (isinstance(c.get("r"), int) and c["r"] >= 0):
                    return ("model/%s/in-range" % fn, "%s(%d) with %d blocks returned %r" % (fn, i, cnt, c.get("r")))
                continue
            if p.get("r") != c.get("r") or f.get("r") != c.get("r") or f.get("flen") != len(c.get("r") or "") or not _padok(f):
                return ("binding/%s" % fn, "%s(%d) on %s: C++ %r, C %r, Fortran glue(n+1) %r len %r pad_ok %r guard_ok %r short_ok %r" % (
                    fn, i, slot, p.get("r"), c.get("r"), f.get("r"), f.get("flen"), f.get("pad_ok"), f.get("guard_ok"), f.get("short_ok")))
            if not inrange and c.get("r") != "":
                return ("model/%s/out-of-range" % fn, "%s(%d) with count %d returned %r, expected an empty string" % (fn, i, cnt, c.get("r")))
        # whole string vs lines is C09's business
    # ---- settings store
    def want(fn, val, argclass="-"):
        got = G[fn]["c"].get("r")
        if val is not None and got != val:
            return ("model/%s" % fn, "%s on instance %s (id %d) returned %r, reference model says %r" % (fn, slot, snap["id"], got, val))
    for k in SWITCHES:
        e = want("Get" + k, snap["sw"][k])
        if e:
            return e
    for k in NAMES:
        e = want("Get" + k, snap["fn"][k])
        if e:
            return e
    e = want("GetCurrentSelectedOutputUserNumber", snap["cur"])
    if e:
        return e
    cur = snap["cur"]
    e = want("GetSelectedOutputFileOn", snap["sfo"].get(cur, 0)) or want("GetSelectedOutputStringOn", snap["sso"].get(cur, 0))
    if e:
        return e
    if cur in snap["sfn"]:
        e = want("GetSelectedOutputFileName", snap["sfn"][cur])
        if e:
            return e
    else:
        got = G["GetSelectedOutputFileName"]["c"].get("r")
        dflt = "selected_%d.%d.out" % (cur, snap["id"])
        g.sig("GetSelectedOutputFileName", "live", "unset-number")
        if got != dflt:
            return ("model/GetSelectedOutputFileName/default-of-unset-number", "GetSelectedOutputFileName with current user number %d (never set, not defined) returned %r; documented default is %r" % (cur, got, dflt))
    if snap["sw"]["ErrorOn"] and snap["sw"]["ErrorStringOn"] and snap["errtxt"] is not None:
        e = want("GetErrorString", snap["errtxt"])
        if e:
            return e
    if snap["warntxt"] is not None:
        e = want("GetWarningString", snap["warntxt"])
        if e:
            return e
    # ---- cells
    for c in rec.get("cells", []):
        p, cc, f = c["v"].get("p", {}), c["v"].get("c", {}), c["v"].get("f", {})
        row, col = c["row"], c["col"]
        inr = 0 <= row < rec["rows"] and 0 <= col < rec["cols"]
        g.sig("GetSelectedOutputValue", "live", "in-range" if inr else "out-of-range")
        g.ncmp += 1
        if (p.get("r"), p.get("vt"), p.get("v")) != (cc.get("r"), cc.get("vt"), cc.get("v")):
            return ("binding/GetSelectedOutputValue", "cell (%d,%d): C++ %r vs C %r" % (row, col, p, cc))
        if f.get("r") != cc.get("r"):
            return ("binding/GetSelectedOutputValueF", "cell (%d,%d+1): Fortran glue result %r vs C %r" % (row, col, f.get("r"), cc.get("r")))
        vt = cc.get("vt")
        exp_s = None
        if vt == 2:
            exp_vt, exp_d, exp_s = 3, float(int(cc["v"])), "%d" % int(cc["v"])
        elif vt == 3:
            exp_vt, exp_d, exp_s = 3, float(cc["v"]), _fmt_e(float(cc["v"]))
        elif vt == 4:
            exp_vt, exp_d, exp_s = 4, None, cc["v"]
        else:
            exp_vt, exp_d = vt, None
        if f.get("vt") != exp_vt:
            return ("binding/GetSelectedOutputValueF", "cell (%d,%d): Fortran glue type %r, expected %r (C type %r)" % (row, col, f.get("vt"), exp_vt, vt))
        if exp_d is not None and float(f.get("d")) != exp_d and not (exp_d != exp_d):
            return ("binding/GetSelectedOutputValueF", "cell (%d,%d): Fortran glue value %r vs %r" % (row, col, f.get("d"), exp_d))
        if exp_s is not None and (f.get("s") != exp_s or f.get("flen") != len(exp_s) or f.get("pad_ok") != 1):
            return ("binding/GetSelectedOutputValueF", "cell (%d,%d): Fortran glue string %r len %r pad %r, expected %r" % (row, col, f.get("s"), f.get("flen"), f.get("pad_ok"), exp_s))
        if not inr:
            if rec["rows"] == 0 and rec["cols"] == 0 and cc.get("r") == INVALIDARG:
                pass      # no table for the current user number
            elif cc.get("r") not in (-4, -5) or vt != 1:
                return ("model/GetSelectedOutputValue/out-of-range", "cell (%d,%d) of a %dx%d table returned %r type %r, expected INVALIDROW/INVALIDCOL and TT_ERROR" % (
                    row, col, rec["rows"], rec["cols"], cc.get("r"), vt))
        cap = c["cap"]
        for b in "pc":
            x = c["v2"].get(b, {})
            g.sig("GetSelectedOutputValue2", "live", "cap%d" % cap)
            if x.get("r") != cc.get("r") or x.get("vt") != exp_vt or x.get("guard_ok") != 1:
                return ("binding/GetSelectedOutputValue2", "cell (%d,%d) via %s: %r, expected result %r type %r" % (row, col, b, x, cc.get("r"), exp_vt))
            if exp_d is not None and float(x.get("d")) != exp_d and not (exp_d != exp_d):
                return ("binding/GetSelectedOutputValue2", "cell (%d,%d) via %s: value %r vs %r" % (row, col, b, x.get("d"), exp_d))
            if exp_s is not None and x.get("s") != exp_s[:cap]:
                return ("binding/GetSelectedOutputValue2", "cell (%d,%d) via %s: string %r, expected %r (cap %d)" % (row, col, b, x.get("s"), exp_s[:cap], cap))
    return None


# ---------------------------------------------------------------------------------------- cases
ALPHA = ["new_p", "new_c", "new_f", "kill_first", "kill_last", "kill_dead", "kill_never", "noop_look"]


def gen_cases(ctx):
    maxlen = 3 if ctx.tier == "quick" else 4
    seqs = []
    for L in range(1, maxlen + 1):
        seqs += list(itertools.product(range(len(ALPHA)), repeat=L))
    per = 73
    nexh = 0
    if not ctx.params.get("cases"):
        for i in range(0, len(seqs), per):
            nexh += 1
            yield dict(id="exh%04d" % (i // per), kind="exh", seqs=seqs[i:i + per])
    n = ctx.params.get("cases") or (300 if ctx.tier == "quick" else 6000)
    for i in range(n):
        yield dict(id="rnd%05d" % i, kind="rnd", i=i)


def build_exh(ctx, case):
    g = Gen(ctx, ctx.rng("exh", case["id"]))
    for seq in case["seqs"]:
        for s in list(g.m.live()):
            g.destroy(s, "del" if g.m.inst[s]["kind"] == "p" else None)
        for a in seq:
            name = ALPHA[a]
            live = g.m.live()
            if name.startswith("new_"):
                g.create(name[-1])
            elif name == "kill_first" and live:
                g.destroy(live[0])
            elif name == "kill_last" and live:
                g.destroy(live[-1])
            elif name == "kill_dead" and g.m.dead():
                g.destroy(g.rng.choice(g.m.dead()[-6:]))
            elif name == "kill_never":
                g.destroy_never()
            # look-up of the last few ids ever seen + all live ones
            keep = g.m.ever
            g.m.ever = [s for s in keep if g.m.inst[s]["live"]] + [s for s in keep if not g.m.inst[s]["live"]][-3:]
            g.look_all()
            g.m.ever = keep
    g.sig("exhaustive-registry", "len<=%d" % max(len(s) for s in case["seqs"]), "batch")
    return g


def build_rnd(ctx, case):
    rng = ctx.rng("rnd", case["i"])
    g = Gen(ctx, rng)
    nops = rng.randint(25, 70)
    g.create()
    for _ in range(nops):
        live = g.m.live()
        w = rng.random()
        if not live or (w < 0.07 and len(live) < 4):
            g.create()
            continue
        slot = rng.choice(live)
        mi = g.m.inst[slot]
        if w < 0.12:
            g.destroy(slot, "del" if mi["kind"] == "p" and rng.random() < 0.5 else None)
        elif w < 0.16:
            if g.m.dead() and rng.random() < 0.5:
                g.destroy(rng.choice(g.m.dead()))
            else:
                g.destroy_never()
        elif w < 0.32:
            g.set_switch(slot)
        elif w < 0.45:
            g.set_name(slot)
        elif w < 0.57:
            g.set_cur(slot)
        elif w < 0.64:
            g.load(slot)
        elif w < 0.74:
            if mi["db"]:
                g.run(slot)
            else:
                g.load(slot)
        elif w < 0.80:
            g.accumulate(slot)
        elif w < 0.85:
            g.add_msg(slot)
        elif w < 0.90:
            g.invalid_burst()
        else:
            g.probe(slot, cells=rng.random() < 0.5)
    for s in g.m.live():
        g.probe(s, cells=True)
    g.look_all()
    return g


def run_case(ctx, case):
    cwd = ctx.scratch(case["id"])
    g = build_exh(ctx, case) if case["kind"] == "exh" else build_rnd(ctx, case)
    run = core.run_vdrive(ctx.bin("asan"), g.s.bytes(), cwd, timeout=300, flavour="asan")
    pf = core.process_failure(run)
    if pf:
        if pf[0] in ("timeout", "harness"):
            return Result(INCONCLUSIVE, reason="%s: %s" % (pf[0], (pf[2] or "")[:200]))
        lc = run["last_call"] or {}
        return Result(VIOLATED, key="C13/%s" % pf[1], what="process ended abnormally during %s %s: %s" % (lc.get("op"), lc.get("args"), pf[2][:2500]),
                      replay={"case": case})
    rets = core.rets(run)
    if len(rets) != len(g.checks):
        return Result(INCONCLUSIVE, reason="record count %d != script ops %d" % (len(rets), len(g.checks)))
    g._rets = rets
    findings = []
    for (line, chk), rec in zip(g.checks, rets):
        if chk is None:
            continue
        e = chk(rec)
        if e:
            findings.append(("C13/" + e[0], "%s [after script line %r, case %s]" % (e[1], line[:120], case["id"])))
            if len(findings) >= 5:
                break
    sample = dict(id=case["id"], kind=case["kind"], ops=len(g.checks), first_ops=[l for l, _ in g.checks[:12]])
    stats = {"n_calls": len(g.checks), "n_comparisons": g.ncmp, "n_instances_created": g.m.next_id}
    if findings:
        k, w = findings[0]
        return Result(VIOLATED, key=k, what=w, findings=findings[1:], sigs=g.sigs, sample=sample, stats=stats)
    return Result(HELD, sigs=g.sigs, sample=sample, stats=stats)
