"""C12 - kinetic reactions transfer exactly what they integrate, within tolerance.

Monitor: seeded KINETICS problems whose rate laws have closed-form solutions (zero order with exhaustion, first order,
A -> B -> C coupled linear, reversible A <=> B) on inert formulas.  Every problem is run in several ways inside one process,
each on a fresh copy of the same solution: one step to T, T divided into n steps, the same with INCREMENTAL_REACTIONS true,
the other integrator, another Runge-Kutta order; one variant runs the same law inside ADVECTION time steps.  USER_PUNCH records
KIN() of every reactant, TOTAL_TIME and TOTMOLE of the formula elements after every step.
Oracles: |m(T) - exact(T)| <= 100 * tol for every recorded time; all variants agree at T within 100 * tol; the change of each
reactant times its formula equals the change of the solution totals (1e-6 of the inventory); no reactant amount is negative.
"""
import math
import os

from vlib import core, gens
from vlib.core import Result, HELD, VIOLATED, INCONCLUSIVE

PROP = "C12"
FLAVOURS = ["opt"]
RULE = ("cases: seeded (rate law in {zero-order with exhaustion, first-order, A->B->C, reversible A<=>B}, rate constants, initial amounts, T, tolerance 1e-6..1e-12, "
        "integrator RK order 1/2/3/6 or CVODE with order/steps, -bad_step_max, step count 1-8, INCREMENTAL_REACTIONS, batch or ADVECTION time steps); "
        "distinct & non-trivial = distinct (rate law, integrator, order, step mode, tolerance decade) tuples with a reactant change > 1000 * tol")
ASSUME = ["'within 100x the user tolerance' is read per reactant in moles (the -tol value is an absolute error in moles)",
          "the shipped rate library is exercised by C06/C07/C08 workloads, not here (no closed form)",
          "formulas are inert salts so the rate does not depend on the solution",
          "rate programs define a genuine ODE (SAVE f(M) * TIME): the popular guard 'IF (moles > M) THEN moles = M' makes the rate depend on the integrator's sub-step and has no closed form"]

RATES = """RATES
 zero_a
-start
10 rate = PARM(1)
20 IF (M <= 0) THEN rate = 0
30 SAVE rate * TIME
-end
 first_a
-start
10 SAVE PARM(1) * M * TIME
-end
 chain_a
-start
10 SAVE PARM(1) * M * TIME
-end
 chain_b
-start
10 SAVE (PARM(2) * M - PARM(1) * KIN("chain_a")) * TIME
-end
 rev_a
-start
10 SAVE (PARM(1) * M - PARM(2) * KIN("rev_b")) * TIME
-end
 rev_b
-start
10 SAVE (PARM(2) * M - PARM(1) * KIN("rev_a")) * TIME
-end
 pair_f
-start
10 SAVE PARM(1) * M * TIME
-end
 pair_z
-start
10 rate = PARM(2)
20 IF (M <= 0) THEN rate = 0
30 SAVE rate * TIME
-end
"""
FORM = {"zero_a": ("NaBr", ("Na", "Br")), "first_a": ("KBr", ("K", "Br")), "chain_a": ("LiBr", ("Li", "Br")), "chain_b": ("KCl", ("K", "Cl")),
        "rev_a": ("LiCl", ("Li", "Cl")), "rev_b": ("NaBr", ("Na", "Br")), "pair_f": ("KBr", ("K", "Br")), "pair_z": ("NaCl", ("Na", "Cl"))}
EL = ["Na", "K", "Li", "Cl", "Br"]


def exact(law, p, m0, t):
    if law == "zero":
        return {"zero_a": max(m0["zero_a"] - p[0] * t, 0.0)}
    if law == "first":
        return {"first_a": m0["first_a"] * math.exp(-p[0] * t)}
    if law == "pair":
        return {"pair_f": m0["pair_f"] * math.exp(-p[0] * t), "pair_z": max(m0["pair_z"] - p[1] * t, 0.0)}
    if law == "chain":
        k1, k2 = p
        a = m0["chain_a"] * math.exp(-k1 * t)
        b = m0["chain_b"] * math.exp(-k2 * t) + m0["chain_a"] * k1 / (k2 - k1) * (math.exp(-k1 * t) - math.exp(-k2 * t))
        return {"chain_a": a, "chain_b": b}
    k1, k2 = p
    tot = m0["rev_a"] + m0["rev_b"]
    aeq = tot * k2 / (k1 + k2)
    a = aeq + (m0["rev_a"] - aeq) * math.exp(-(k1 + k2) * t)
    return {"rev_a": a, "rev_b": tot - a}


# ---- the engine's own Runge-Kutta trial step (Cash-Karp tableau of rk_kinetics), used only to *name* one known way in which the statement fails:
# on a coarse trial step an intermediate stage can drive a reactant below zero, where rk_kinetics clamps it to 0; the stage rates are then no longer those of the
# smooth law, the embedded error estimate loses its meaning and now and then comes out below tol, so the whole step is accepted although its true error is hundreds
# of tolerances (seen: k1+k2 = 2.7/T, tol 1e-6, one step of T: estimate 0.78 tol, error 414 tol).  A violation is filed under that finding only when this replica accepts the very step the engine was asked
# to take (estimate <= tol) AND lands on the engine's number; anything else keeps its ordinary key.
_CK_B = [[], [1 / 5], [3 / 40, 9 / 40], [3 / 10, -9 / 10, 6 / 5], [-11 / 54, 5 / 2, -70 / 27, 35 / 27],
         [1631 / 55296, 175 / 512, 575 / 13824, 44275 / 110592, 253 / 4096]]
_CK_C = [37 / 378, 0.0, 250 / 621, 125 / 594, 0.0, 512 / 1771]
_CK_C4 = [2825 / 27648, 0.0, 18575 / 48384, 13525 / 55296, 277 / 14336, 1 / 4]


def _deriv(law, p, y):
    if law == "first":
        return [-p[0] * y[0]]
    if law == "chain":
        return [-p[0] * y[0], -p[1] * y[1] + p[0] * y[0]]
    if law == "rev":
        return [-(p[0] * y[0] - p[1] * y[1]), -(p[1] * y[1] - p[0] * y[0])]
    return None


def ck_trial(law, p, y, h):
    """one Cash-Karp step of size h from y: (new y, largest |embedded error estimate|) or None for laws without a replica"""
    if _deriv(law, p, y) is None:
        return None
    ks = []
    for st in range(6):
        yy = [y[j] + sum(_CK_B[st][m] * ks[m][j] for m in range(st)) for j in range(len(y))]
        yy = [v if v >= 1e-30 else 0.0 for v in yy]      # rk_kinetics: 'if (m < 1.e-30) m = 0' at every stage
        ks.append([h * d for d in _deriv(law, p, yy)])
    y5 = [y[j] + sum(_CK_C[m] * ks[m][j] for m in range(6)) for j in range(len(y))]
    err = max(abs(sum((_CK_C[m] - _CK_C4[m]) * ks[m][j] for m in range(6))) for j in range(len(y)))
    return y5, err


def gen_cases(ctx):
    n = ctx.params.get("cases") or (300 if ctx.tier == "quick" else 5000)
    for i in range(n):
        yield dict(id="k%05d" % i, i=i)


def kin_block(law, names, m0, p, tol, integ, steps_text, step_divide=None):
    t = "KINETICS 1\n"
    for nm in names:
        t += " %s\n -formula %s 1\n -m0 %.10g\n -m %.10g\n -parms %s\n -tol %g\n" % (nm, FORM[nm][0], m0[nm], m0[nm], " ".join("%.10g" % x for x in p), tol)
    t += " -steps %s\n" % steps_text
    if integ[0] == "rk":
        t += " -runge_kutta %d\n" % integ[1]
    else:
        t += " -cvode true\n -cvode_order %d\n -cvode_steps %d\n" % (integ[1], integ[2])
    if integ[-1]:
        t += " -bad_step_max %d\n" % integ[-1]
    if step_divide:
        t += " -step_divide %g\n" % step_divide
    return t


def build(ctx, case):
    r = ctx.rng("kin", case["i"])
    law = r.choice(["zero", "first", "chain", "rev", "pair"])      # pair: two independent reactants in one entry, one first-order and one zero-order, in either order
    tol = r.choice([1e-6, 1e-8, 1e-8, 1e-10, 1e-12])
    names = {"zero": ["zero_a"], "first": ["first_a"], "chain": ["chain_a", "chain_b"], "rev": ["rev_a", "rev_b"], "pair": ["pair_f", "pair_z"]}[law]
    if law == "pair" and r.random() < 0.4:
        names = names[::-1]
    m0 = {nm: gens.loguni(r, 1e-3, 0.05) for nm in names}
    T = gens.loguni(r, 1e2, 1e6)
    if law == "zero":
        p = [m0["zero_a"] * r.choice([0.3, 0.8, 1.5, 3.0]) / T]      # may exhaust before T
    elif law == "first":
        p = [r.uniform(0.2, 4.0) / T]
    elif law == "pair":
        p = [r.uniform(0.2, 4.0) / T, m0["pair_z"] * r.choice([0.1, 0.3, 0.6]) / T]
    else:
        k1 = r.uniform(0.3, 3.0) / T
        k2 = k1 * r.choice([0.2, 0.5, 2.0, 3.5])
        p = [k1, k2]

    def integ():
        if r.random() < 0.35:
            return ("cvode", r.randint(1, 5), r.choice([10, 30, 100, 300, 1000]), r.choice([0, 2000, 5000]))      # few steps per CVode call exercise the restart loop of run_reactions()
        order = r.choice([1, 2, 3, 6])
        if tol <= 1e-10 and order < 3:
            order = r.choice([3, 6])
        return ("rk", order, r.choice([0, 0, 500, 2000]))
    base = integ()
    other = ("cvode", 5, 500, 0) if base[0] == "rk" else ("rk", r.choice([3, 6]), 0)
    nst = r.randint(2, 8)
    variants = [("one", base, "%.10g" % T, False, 1),
                ("split", base, "%.10g in %d steps" % (T, nst), False, nst),
                ("incr", base, "%.10g in %d steps" % (T, nst), True, nst),
                ("list", base, " ".join("%.10g" % (T * (k + 1) / nst) for k in range(nst)), False, nst),
                ("other", other, "%.10g" % T, False, 1),
                # -step_divide > 1: the first sub-step is T / value; < 1: at most that many moles per sub-step.  Either way the integrator has to grow its step back
                ("divide", base, "%.10g" % T, False, 1, r.choice([2, 10, 100, 1e-3, 1e-4]))]
    # the solution holds plenty of every formula element: a reactant that grows takes its formula out of the solution
    sol = "SOLUTION 1\n temp 25\n pH 7 charge\n units mol/kgw\n Na 0.3\n K 0.3\n Li 0.3\n Cl 0.45\n Br 0.45\n"
    punch = "SELECTED_OUTPUT 1\n -reset false\nUSER_PUNCH 1\n -headings time " + " ".join("kin_" + nm for nm in names) + " " + " ".join("tm_" + e for e in EL) + " step\n"
    punch += " 10 PUNCH TOTAL_TIME, " + ", ".join('KIN("%s")' % nm for nm in names) + "\n 20 PUNCH " + ", ".join('TOTMOLE("%s")' % e for e in EL) + "\n 30 PUNCH STEP_NO\n"
    runs = []
    for var in variants:
        vname, ig, st, inc, nsteps = var[:5]
        t = "KNOBS\n -convergence_tolerance 1e-12\n" + RATES + punch + sol + "END\nINCREMENTAL_REACTIONS %s\nUSE solution 1\n" % ("true" if inc else "false") + kin_block(law, names, m0, p, tol, ig, st, var[5] if len(var) > 5 else None) + "END\n"
        runs.append((vname, t, ig, nsteps, inc))
    # the same law inside ADVECTION time steps (3 cells, T split over the shifts)
    sh = r.randint(2, 5)
    adv = ("KNOBS\n -convergence_tolerance 1e-12\n" + RATES + punch + "SOLUTION 0-3\n temp 25\n pH 7 charge\n units mol/kgw\n Na 0.3\n K 0.3\n Li 0.3\n Cl 0.45\n Br 0.45\nEND\nINCREMENTAL_REACTIONS false\n"
           + kin_block(law, names, m0, p, tol, base, "1").replace("KINETICS 1", "KINETICS 1-3") + "ADVECTION\n -cells 3\n -shifts %d\n -time_step %.10g\n -punch_cells 1-3\n -punch_frequency 1\nEND\n" % (sh, T / sh))
    runs.append(("advection", adv, base, sh, False))
    # and inside TRANSPORT time steps: pure advection (no dispersion, no diffusion), forward or back, so that every cell still integrates its own closed-form law;
    # the end cells are integrated in two halves around the shift
    sh2 = r.randint(2, 5)
    flow = r.choice(["forward", "back"])
    trn = ("KNOBS\n -convergence_tolerance 1e-12\n" + RATES + punch + "SOLUTION 0-4\n temp 25\n pH 7 charge\n units mol/kgw\n Na 0.3\n K 0.3\n Li 0.3\n Cl 0.45\n Br 0.45\nEND\nINCREMENTAL_REACTIONS false\n"
           + kin_block(law, names, m0, p, tol, base, "1").replace("KINETICS 1", "KINETICS 1-3")
           + "TRANSPORT\n -cells 3\n -shifts %d\n -time_step %.10g\n -flow_direction %s\n -boundary_conditions flux flux\n -lengths 1\n -dispersivities 0\n -diffusion_coefficient 0\n -punch_cells 1-3\n -punch_frequency 1\nEND\n" % (sh2, T / sh2, flow))
    runs.append(("transport", trn, base, sh2, False))
    return dict(law=law, tol=tol, names=names, m0=m0, p=p, T=T, runs=runs, base=base)


def run_case(ctx, case):
    b = build(ctx, case)
    cwd = ctx.scratch(case["id"])
    s = core.Script()
    for vname, text, ig, nsteps, inc in b["runs"]:
        s.raw("new %s" % vname)
        s.raw("loaddb %s %s" % (vname, os.path.join(ctx.db, "phreeqc.dat")))
        s.raw("tag %s" % vname)
        s.run(vname, text)
        s.raw("snap %s se" % vname)
        s.raw("del %s" % vname)
    run = core.run_vdrive(ctx.bin("opt"), s.bytes(), cwd, timeout=120)
    if core.process_failure(run):
        return Result(INCONCLUSIVE, reason="process failure / watchdog")
    law, tol, names, m0, p, T = b["law"], b["tol"], b["names"], b["m0"], b["p"], b["T"]
    findings, sigs = [], set()
    coarse = set()      # variants in which a whole coarse step was accepted (see ck_trial)
    final = {}
    worst = 0.0
    nchk = 0
    big_change = any(abs(exact(law, p, m0, T)[nm] - m0[nm]) > 1000 * tol for nm in names)
    for vname, text, ig, nsteps, inc in b["runs"]:
        rr = [x for x in core.rets(run, "run") if x.get("tag") == vname]
        sn = [x for x in core.rets(run, "snap") if x.get("tag") == vname]
        if not rr or not sn or rr[0].get("r") != 0 or not sn[0]["selout"]:
            continue
        cells = sn[0]["selout"][0]["cells"]
        hd = [c[1] for c in cells[0]]
        rows = [{h: float(c[1]) for h, c in zip(hd, row) if c[0] in "dl"} for row in cells[1:]]
        rows = [d for d in rows if "time" in d]
        # kinetic rows: those after the initial solution row(s); in batch mode TOTAL_TIME grows; identify by kin_ values defined
        krows = []
        for d in rows:
            if all(("kin_" + nm) in d for nm in names) and d["time"] > 0:
                krows.append(d)
        if not krows:
            continue
        initial = rows[0]
        prev_t, prev_y = 0.0, [m0[nm] for nm in names]
        for d in krows:
            t = d["time"]
            if vname == "transport":
                # TOTAL_TIME of an end cell is read in the middle of its split step; the amount reacted belongs to whole shifts
                t = d.get("step", 0) * T / nsteps
                if t <= 0:
                    continue
            ex = exact(law, p, m0, t)
            # did the engine take this (sub)step as one accepted Runge-Kutta step?  (batch variants only: their rows follow each other in time)
            whole = False
            if not inc:
                prev_t, prev_y = 0.0, [m0[nm] for nm in names]      # cumulative steps: every row is integrated from the initial state
            if ig[0] == "rk" and vname in ("one", "split", "incr", "list") and t > prev_t:
                tr = ck_trial(law, p, prev_y, t - prev_t)
                if tr and tr[1] <= tol and all(abs(tr[0][j] - d["kin_" + nm]) <= 10 * tol for j, nm in enumerate(names)):
                    whole = True
            for nm in names:
                got = d["kin_" + nm]
                nchk += 1
                worst = max(worst, abs(got - ex[nm]) / tol)
                if got < -1e-30:
                    findings.append(("C12/negative-amount/%s" % law, "%s variant %s: KIN(%s) = %.6e < 0 at t = %.6g" % (case["id"], vname, nm, got, t)))
                if abs(got - ex[nm]) > 100 * tol:
                    if whole:
                        coarse.add(vname)
                    findings.append(("C12/closed-form%s/%s/%s-o%s%s" % ("" if abs(got - ex[nm]) <= 1e5 * tol else "-gross", law, ig[0], ig[1], "/whole-step-accepted" if whole else ""),
                                     "%s variant %s (%s, tol %g): KIN(%s) at t=%.8g is %.12g, closed form %.12g (difference %.3e = %.1f x tol)%s" % (
                        case["id"], vname, ig, tol, nm, t, got, ex[nm], got - ex[nm], abs(got - ex[nm]) / tol,
                        "; the step of %.6g s up to this row is one accepted Cash-Karp step (embedded estimate within tol)" % (t - prev_t) if whole else "")))
                    break
            if findings:
                break
            prev_t, prev_y = t, [d["kin_" + nm] for nm in names]
        last = [d for d in krows if abs(d["time"] - T) <= 1e-9 * T]
        if last and vname not in ("advection", "transport"):
            final[vname] = last[-1]
            # transfer: delta m x formula = change of solution totals
            d = last[-1]
            want = {e: initial.get("tm_" + e, 0.0) for e in EL}
            for nm in names:
                dm = m0[nm] - d["kin_" + nm]
                for e in FORM[nm][1]:
                    want[e] += dm
            for e in EL:
                got = d.get("tm_" + e, 0.0)
                nchk += 1
                sc = max(abs(got), abs(want[e]), 1e-12)
                if abs(got - want[e]) > 1e-6 * sc:
                    findings.append(("C12/transfer/%s" % law, "%s variant %s: TOTMOLE(%s) = %.12g but initial total + formula x reactant change = %.12g" % (case["id"], vname, e, got, want[e])))
        if vname == "advection" and krows:
            # every cell integrates the same law over shifts x time_step
            for d in krows:
                pass
        sigs.add("%s|%s|%s|%s|tol1e%d" % (law, ig[0], ig[1], vname, round(math.log10(tol))))
    # variants agree at T
    if "one" in final:
        for vname, d in final.items():
            for nm in names:
                a, c = final["one"]["kin_" + nm], d["kin_" + nm]
                nchk += 1
                if abs(a - c) > 100 * tol:
                    igs = {v[0]: v[2] for v in b["runs"]}
                    which = igs[vname] if vname == "other" and igs[vname][0] == "cvode" else igs["one"]
                    findings.append(("C12/step-division%s/%s/%s/%s-o%s%s" % ("" if abs(a - c) <= 1e5 * tol else "-gross", law, vname, which[0], which[1],
                                                                           "/whole-step-accepted" if ("one" in coarse or vname in coarse) and which[0] == "rk" else ""),
                                     "%s: KIN(%s) at T=%.8g is %.12g in one step but %.12g with variant %s (difference %.1f x tol %g)" % (
                        case["id"], nm, T, a, c, vname, abs(a - c) / tol, tol)))
    stats = {"n_checks": nchk, "worst_error_in_tol_units": worst, "n_variants_run": len(final)}
    sample = dict(id=case["id"], law=law, tol=tol, integrator=b["base"], T=T, parms=p, m0=m0, variants=sorted(final), worst_error_in_tol=worst)
    if findings:
        k, w = findings[0]
        return Result(VIOLATED, key=k, what=w, findings=findings[1:], sigs=sigs, sample=sample, stats=stats)
    if not final or not big_change:
        return Result(INCONCLUSIVE, reason="no variant completed" if not final else "reactant change below 1000 tol")
    return Result(HELD, sigs=sigs, sample=sample, stats=stats)
