"""C07 - loading a database returns the instance to the fresh state.

Differential monitor: process A = fresh instance, random history (successful runs on any database, setter calls,
at most one failing call at the end), LoadDatabase(D), probe battery; process B = fresh instance given only the
things the statement lets survive (global switches, user-set file names), LoadDatabase(D), same probe battery.
Every channel of every probe (output with all printing on, log, dump, errors, warnings, selected output tables
and strings, components, return values) must be byte-identical apart from the elapsed-time banner.
"""
import os
import re

from vlib import core, gens
from vlib.core import Result, HELD, VIOLATED, INCONCLUSIVE

PROP = "C07"
FLAVOURS = ["opt", "asan"]
RULE = ("history = 2-8 'dirtying' inputs drawn from a grammar that sets non-default values of persistent things "
        "(KNOBS, PRINT, SELECTED_OUTPUT/USER_PUNCH/USER_PRINT, RATES, CALCULATE_VALUES, TRANSPORT/ADVECTION options incl. stagnant, "
        "INCREMENTAL_REACTIONS, species/phase/master additions, log K changes, PITZER/SIT parameters, isotopes, PUT memory, numbered reactants "
        "of every kind, other databases, setter calls) + optionally one failing call; then LoadDatabase[String](D) and a probe battery; "
        "non-trivial = history ran >=2 dirtiers and all probes ran in both processes; distinct = set of (keyword,option) labels dirtied + D + failing kind")
ASSUME = ["A and B are separate processes (both get instance id 0) so default file names coincide",
          "a leftover that no probe can observe is, by the statement, not a violation",
          "one case in eight is executed under ASan+UBSan (memory errors during or after the reload are C07 violations too)"]

DBS = ["phreeqc.dat", "wateq4f.dat", "pitzer.dat", "iso.dat", "sit.dat", "minteq.v4.dat", "Amm.dat", "llnl.dat"]

# ------------------------------------------------------------------ dirtiers: (labels, text) ; all valid with phreeqc.dat
BASE_SOL = "SOLUTION 1\n temp 25\n pH 7\n Na 1\n Cl 1 charge\n Ca 0.5\n C(4) 1\nEND\n"


def d_knobs(r):
    return ["KNOBS:all"], ("KNOBS\n -iterations %d\n -convergence_tolerance %s\n -tolerance %s\n -step_size %d\n -pe_step_size %d\n -diagonal_scale %s\n"
                           " -debug_model false\n -debug_prep false\n -debug_set false\n -debug_diffuse_layer false\n -debug_inverse false\n -logfile %s\n"
                           " -numerical_derivatives %s\n" % (r.choice([50, 120, 300]), r.choice(["1e-6", "1e-10", "1e-12"]), r.choice(["1e-13", "1e-16"]),
                                                          r.choice([5, 20, 1000]), r.choice([2, 20]), r.choice(["true", "false"]), r.choice(["true", "false"]),
                                                          r.choice(["true", "false"]))) + BASE_SOL


def d_print(r):
    opts = ["reset", "eh", "equilibrium_phases", "exchange", "gas_phase", "headings", "inverse_modeling", "kinetics", "other", "saturation_indices",
            "solid_solutions", "species", "surface", "totals", "user_print", "echo_input", "alkalinity", "censor_species 1e-8", "initial_isotopes", "isotope_ratios", "isotope_alphas"]
    t = "PRINT\n"
    for o in r.sample(opts, r.randint(2, 8)):
        t += " -%s%s\n" % (o, "" if " " in o else " false")
    t += " -warnings %d\n -status false\n -selected_output %s\n" % (r.choice([0, 3, 50]), r.choice(["true", "false"]))
    return ["PRINT:*"], t + BASE_SOL


def d_selout(r):
    n = r.choice([1, 2, 5])
    return ["SELECTED_OUTPUT", "USER_PUNCH"], gens.selected_output(r, n) + gens.user_punch(r, n, strings=True) + BASE_SOL


def d_user_print(r):
    return ["USER_PRINT", "PUT"], "USER_PRINT\n -start\n 10 PUT(%g, 1)\n 20 PUT(%g, 2, 3)\n 30 PRINT \"up\", GET(1), MU\n -end\n" % (r.uniform(1, 9), r.uniform(1, 9)) + BASE_SOL


def d_rates(r):
    return ["RATES", "KINETICS"], ("RATES\n r1\n-start\n10 SAVE %g*TIME\n-end\n zero_rate\n-start\n10 SAVE 1e-9*TIME\n-end\nKINETICS 1\n r1\n -formula NaCl\n -m0 1\n -steps 100 in 2 steps\n -%s\n"
                                   "USE solution 1\nEND\n" % (r.uniform(1e-7, 1e-5), r.choice(["cvode true", "runge_kutta 3", "bad_step_max 200", "step_divide 10"]))).replace("USE solution 1", "SOLUTION 1\n Na 1\n Cl 1")


def d_calc_values(r):
    return ["CALCULATE_VALUES"], "CALCULATE_VALUES\n cv1\n-start\n10 SAVE %g\n-end\nUSER_PRINT\n10 PRINT CALC_VALUE(\"cv1\")\n" % r.uniform(1, 5) + BASE_SOL


def d_transport(r):
    opts = [" -stagnant 1 6.8e-6 0.3 0.1", " -thermal_diffusion 3.0 0.5e-6",
            " -correct_disp true", " -dump_frequency 5", " -warnings false", " -initial_time 1000", " -porosities 0.2"]
    chosen = r.sample(opts, r.randint(1, 4))
    # transport options persist from one TRANSPORT block to the next, so the mutually dependent ones are always given explicitly
    md = r.random() < 0.4
    if md:
        chosen.append(" -multi_d true 1e-9 0.3 0.05 1.0")
        k = r.choice(["implicit", "interlayer", "none"])
        chosen.append(" -implicit %s 1 -30" % ("true" if k == "implicit" else "false"))
        chosen.append(" -interlayer_d %s 0.1 0.01 150" % ("true" if k == "interlayer" else "false"))
    else:
        chosen += [" -multi_d false", " -implicit false", " -interlayer_d false"]
    stag = any("stagnant" in o for o in chosen)
    t = "SOLUTION 0-8\n Na 1\n Cl 1\n K 0.1\n"
    t += "TRANSPORT\n -cells 3\n -shifts 2\n -time_step %g\n -lengths %g\n -dispersivities %g\n -diffusion_coefficient %g\n -flow_direction %s\n -boundary_conditions %s %s\n -punch_cells 1-3\n -print_cells 2\n -punch_frequency 2\n -print_frequency 2\n" % (
        r.choice([100, 3600]), r.choice([0.5, 2]), r.choice([0.02, 0.2]), r.choice([1e-9, 5e-10]), r.choice(["forward", "back", "diffusion_only"]),
        r.choice(["flux", "constant", "closed"]), r.choice(["flux", "constant", "closed"]))
    t += "\n".join(chosen) + "\nEND\n"
    return ["TRANSPORT:" + o.split()[0] for o in chosen] + ["TRANSPORT"], t


def d_advection(r):
    return ["ADVECTION"], "SOLUTION 0-4\n Na 1\n Cl 1\nADVECTION\n -cells 4\n -shifts 3\n -time_step 50\n -initial_time 7\n -print_cells 1-2\n -punch_cells 3\n -print_frequency 2\n -punch_frequency 3\n -warnings false\nEND\n"


def d_incremental(r):
    return ["INCREMENTAL_REACTIONS"], "INCREMENTAL_REACTIONS true\n" + BASE_SOL + "USE solution 1\nREACTION 1\n NaCl 1\n 1 mmol in 2 steps\nEND\n"


def d_species(r):
    return ["SOLUTION_SPECIES:log_k"], ("SOLUTION_SPECIES\n Ca+2 + CO3-2 = CaCO3\n log_k %g\n delta_h 3.5 kcal\n Na+ + Cl- = NaCl\n log_k %g\n -gamma 3 0.1\n" % (r.uniform(2, 5), r.uniform(-2, 0.5))) + BASE_SOL


def d_phases(r):
    return ["PHASES"], "PHASES\n Calcite\n CaCO3 = CO3-2 + Ca+2\n log_k %g\n Newphase\n NaCl = Na+ + Cl-\n log_k 1.5\n" % r.uniform(-9, -7) + BASE_SOL + "USE solution 1\nEQUILIBRIUM_PHASES 1\n Calcite 0 1\n Newphase 0 0\nEND\n"


def d_master(r):
    return ["SOLUTION_MASTER_SPECIES"], ("SOLUTION_MASTER_SPECIES\n Xx Xx+ 0 Xx 50\n Na Na+ 0 Na %g\nSOLUTION_SPECIES\n Xx+ = Xx+\n log_k 0\n Xx+ + Cl- = XxCl\n log_k 1\n" % r.choice([22.99, 23.5])
                                          + "SOLUTION 1\n Xx 1\n Cl 1\n Na 1\nEND\n")


def d_exchange_master(r):
    return ["EXCHANGE_MASTER_SPECIES", "EXCHANGE"], ("EXCHANGE_MASTER_SPECIES\n Y Y-\nEXCHANGE_SPECIES\n Y- = Y-\n log_k 0\n Na+ + Y- = NaY\n log_k 0.3\n Ca+2 + 2Y- = CaY2\n log_k %g\n" % r.uniform(0.5, 1)
                                                     + BASE_SOL + "EXCHANGE 1\n Y 0.01\n X 0.02\n -equilibrate 1\nEND\n")


def d_surface_master(r):
    return ["SURFACE_MASTER_SPECIES", "SURFACE"], ("SURFACE_MASTER_SPECIES\n Sfa_a Sfa_aOH\nSURFACE_SPECIES\n Sfa_aOH = Sfa_aOH\n log_k 0\n Sfa_aOH = Sfa_aO- + H+\n log_k -8\n"
                                                   + BASE_SOL + "SURFACE 1\n Sfa_aOH 0.001 100 1\n Hfo_wOH 0.002 600 1\n -equilibrate 1\n %s\nEND\n" % r.choice(["-no_edl", "-diffuse_layer 1e-8", "-donnan", ""]))


def d_reactants(r):
    t = BASE_SOL.replace("END\n", "")
    t += gens.eq_phases(r, "1-3") + gens.gas_phase(r, 2) + gens.solid_solution(r, 4) + gens.reaction(r, "1-2")
    t += "REACTION_TEMPERATURE 1\n 30 40\nREACTION_PRESSURE 2\n 1 2\nMIX 3\n 1 0.5\nSAVE solution 7-9\nEND\n"
    return ["EQUILIBRIUM_PHASES", "GAS_PHASE", "SOLID_SOLUTIONS", "REACTION", "REACTION_TEMPERATURE", "REACTION_PRESSURE", "MIX", "SAVE"], t


def d_spread(r):
    return ["SOLUTION_SPREAD"], "SOLUTION_SPREAD\n -units mg/l\n -temp 20\n -ph 6.5\n -pe 5\n -density 1.01\n -isotope_uncertainty 13C 0.5\nNumber\tCa\tCl\tNa\n\tmg/l\tmg/l\tmg/l\n11\t10\t35\t12\n12\t20\t40\t3\nEND\n"


def d_inverse(r):
    return ["INVERSE_MODELING"], ("SOLUTION 1\n Na 1\n Cl 1\nSOLUTION 2\n Na 2\n Cl 2\nINVERSE_MODELING 1\n -solutions 1 2\n -uncertainty %g\n -phases\n  Halite\n -tolerance 1e-9\n -minimal\n -range 500\n -mineral_water false\n -multiple_precision %s\nEND\n"
                                  % (r.choice([0.03, 0.1]), r.choice(["true", "false"])))


def d_isotopes(r):
    return ["ISOTOPES"], "SOLUTION 1\n Na 1\n Cl 1\n C(4) 2\n -isotope 13C -8 0.5\n -isotope 18O -4\nEND\n"


def d_named(r):
    return ["NAMED_EXPRESSIONS", "MEAN_GAMMAS"], "NAMED_EXPRESSIONS\n Log_alpha_test\n log_k 0.1\nMEAN_GAMMAS\n NaCl Na+ 1 Cl- 1\n" + BASE_SOL


def d_pitzer(r):
    return ["PITZER"], "PITZER\n -macinnes %s\n -use_etheta %s\n -redox false\n-B0\n Na+ Cl- %g\n" % (r.choice(["true", "false"]), r.choice(["true", "false"]), r.uniform(0.07, 0.08)) + "SOLUTION 1\n Na 1000\n Cl 1000\nEND\n"


def d_sit(r):
    return ["SIT"], "SIT\n-epsilon\n Na+ Cl- %g\n" % r.uniform(0.02, 0.04) + "SOLUTION 1\n Na 1000\n Cl 1000\nEND\n"


def d_llnl(r):
    return ["LLNL_AQUEOUS_MODEL_PARAMETERS"], "LLNL_AQUEOUS_MODEL_PARAMETERS\n-temperatures\n 0 25 60 100 150 200 250 300\n-dh_a\n 0.49 0.51 0.55 0.6 0.69 0.8 0.98 1.25\n-dh_b\n 0.32 0.33 0.33 0.34 0.35 0.36 0.37 0.38\n-bdot\n 0.03 0.04 0.04 0.05 0.05 0.05 0.03 0\n-co2_coefs\n -1.0312 0.0012806 255.9 0.4445 -0.001606\n" + BASE_SOL


def d_dump(r):
    return ["DUMP", "DELETE", "COPY"], BASE_SOL + "COPY solution 1 20-22\nEND\nDUMP\n -all\n -append %s\nEND\nDELETE\n -solution 21\nEND\n" % r.choice(["true", "false"])


def d_run_cells(r):
    return ["RUN_CELLS", "USE", "SAVE"], BASE_SOL + "EQUILIBRIUM_PHASES 1\n Calcite 0 1\nEND\nRUN_CELLS\n -cells 1\n -start_time 100\n -time_step 50\nEND\n"


def d_title_user_graph(r):
    return ["TITLE", "USER_GRAPH"], "TITLE dirty title %d\nUSER_GRAPH 1\n -headings a b\n -start\n10 GRAPH_X TOT(\"Na\")\n20 GRAPH_Y TOT(\"Cl\")\n -end\n" % r.randint(0, 99) + BASE_SOL


def d_modify(r):
    return ["SOLUTION_MODIFY", "SOLUTION_RAW"], BASE_SOL + "SOLUTION_MODIFY 1\n -cb 1e-5\n -totals\n  Na 0.002\nEND\nSOLUTION_RAW 30\n -temp 25\n -total_h 111.0124\n -total_o 55.5062\n -cb 0\n -totals\n  Na 0.001\n  Cl 0.001\n -pH 7\n -pe 4\n -mu 0.001\n -ah2o 1\n -total_alkalinity 0\n -mass_water 1\nEND\n"


DIRTIERS = [d_knobs, d_print, d_selout, d_user_print, d_rates, d_calc_values, d_transport, d_transport, d_advection, d_incremental, d_species, d_phases,
            d_master, d_exchange_master, d_surface_master, d_reactants, d_spread, d_inverse, d_isotopes, d_named, d_dump, d_run_cells, d_title_user_graph,
            d_modify, d_llnl]
GENERIC = [d_knobs, d_print, d_user_print, d_calc_values, d_incremental, d_advection, d_transport, d_dump, d_run_cells, d_title_user_graph]
FAILERS = {
    "input_error": "SOLUTION 1\n Na 1\n Qq 5\nEND\n",
    "unknown_keyword_option": "SOLUTION 1\n Na 1\n -nonsense 3\nKNOBS\n -iterations 77\nEND\n",
    "basic_error": "SOLUTION 1\n Na 1\n Cl 1\nUSER_PRINT\n10 x = NOSUCHFUNC(3\n20 PRINT x\nEND\n",
    "nonconvergence": "KNOBS\n -iterations 1\n -step_size 1.0001\nSOLUTION 1\n Na 1\n Cl 1\n Ca 3\n C(4) 5\n Fe 0.1\n S(6) 1\n pe -3\nEQUILIBRIUM_PHASES 1\n Calcite 0 1\n Pyrite 0 1\n Goethite 0 1\n Gypsum 0 1\nEND\n",
    "mid_transport_abort": "SOLUTION 0-3\n Na 1\n Cl 1\nTRANSPORT\n -cells 3\n -shifts 5\n -stagnant 1 1e-6 0.3 0.1\nEND\n",
    "spread_error": "SOLUTION_SPREAD\n -units mg/l\nNumber\tCa\tZz\n\tmg/l\tmg/l\n1\t10\t3\nEND\n",
    "missing_rate": "SOLUTION 1\n Na 1\n Cl 1\nKINETICS 1\n nosuchrate\n -m0 1\n -steps 10\nEND\n",
    "undefined_solution": "USE solution 99\nREACTION 1\n NaCl 1\n 1 mmol\nEND\n",
    # a failing *load*: a database text that defines extra phases, a species and a rate and then stops on a syntax error (see _script)
    "bad_database_string": None,
    # dies while the input is still being read, after requests (COPY, DELETE, DUMP, RUN_CELLS) have been queued
    "queued_then_missing_include": "COPY solution 1 10-12\nDELETE\n -solution 2\nDUMP\n -solution 1\nINCLUDE$ /nonexistent_dir/nofile.pqi\nEND\n",
}
BAD_DB_TAIL = ("PHASES\nSeedite\n NaCl = Na+ + Cl-\n log_k 1.3\nSOLUTION_SPECIES\nNa+ + Cl- = NaCl\n log_k -0.7\nRATES\n seedrate\n-start\n10 SAVE 1e-7*TIME\n-end\n"
               "PHASES\nSeedbad\n KCl = K+ + Cl-\n log_k not_a_number\n")

# ------------------------------------------------------------------ probe battery (works on every ion-association/pitzer database: Na, Cl, Ca, C, K, S)
PROBES = [
    ("speciation", "SOLUTION 1\n temp 25\n pH 7.5\n Na 10\n Cl 10\n Ca 2\n C(4) 3\n K 1\n S(6) 1\nSELECTED_OUTPUT\n -totals Ca Na\n -molalities Na+ Cl-\n -saturation_indices Calcite Gypsum Halite\nUSER_PUNCH\n -headings g1 e1 mu\n10 PUNCH GET(1), EXISTS(1), MU\nEND\n"),
    ("reaction", "USE solution 1\nREACTION 1\n NaCl 1\n 1 mmol in 2 steps\nEQUILIBRIUM_PHASES 1\n Calcite 0 1\n Gypsum 0 0\nSAVE solution 2\nEND\n"),
    ("kinetics_rk", "RATES\n pr1\n-start\n10 SAVE 1e-6*TIME\n-end\nKINETICS 1\n pr1\n -formula NaCl\n -m0 1\n -steps 1000 in 3 steps\nUSE solution 1\nEND\n"),
    ("kinetics_cvode", "KINETICS 2\n pr1\n -formula KCl\n -m0 1\n -steps 500 in 2 steps\n -cvode true\nUSE solution 1\nEND\n"),
    ("transport", "SOLUTION 0-4\n K 1\n Cl 1\nSOLUTION 1-3\n Na 1\n Cl 1\nTRANSPORT\n -cells 3\n -shifts 3\n -time_step 1000\n -dispersivities 0.1\n -diffusion_coefficient 1e-9\n -punch_frequency 1\nEND\n"),
    ("advection", "SOLUTION 0\n K 2\n Cl 2\nADVECTION\n -cells 3\n -shifts 2\n -punch_frequency 1\nEND\n"),
    ("mix_save", "MIX 1\n 1 0.3\n 2 0.7\nSAVE solution 5\nEND\nRUN_CELLS\n -cells 5\nEND\n"),
    ("next_numbers", "SOLUTION\n Na 3\n Cl 3\nEND\nUSE solution 1\nUSER_PRINT\n10 PRINT \"memory\", GET(1), GET(2,3), EXISTS(1), EXISTS(2,3)\n20 PRINT \"cv\", TOTAL_TIME, SIM_NO\nEND\n"),
    ("dump", "DUMP\n -all\nEND\n"),
]
PROBES_PHREEQC = [
    ("inverse", "SOLUTION 11\n Na 1\n Cl 1\nSOLUTION 12\n Na 2\n Cl 2\nINVERSE_MODELING 1\n -solutions 11 12\n -phases\n  Halite\nEND\n"),
    ("surface_exchange", "USE solution 1\nSURFACE 1\n Hfo_wOH 0.001 600 1\n -equilibrate 1\nEXCHANGE 1\n X 0.01\n -equilibrate 1\nGAS_PHASE 1\n -fixed_volume\n CO2(g) 0.01\nEND\n"),
]


def gen_cases(ctx):
    quick = ctx.tier == "quick"
    n = ctx.params.get("cases") or (200 if quick else 5000)
    for i in range(n):
        r = ctx.rng("case", i)
        target = "phreeqc.dat" if (quick and r.random() < 0.7) or r.random() < 0.4 else r.choice(DBS)
        hist_db = r.choice(["phreeqc.dat", "phreeqc.dat", "phreeqc.dat", "wateq4f.dat", "pitzer.dat", "sit.dat", "llnl.dat", "iso.dat"])
        yield dict(id="h%05d" % i, target=target, hist_db=hist_db, hseed=r.randrange(1 << 30),
                   fail=r.choice([None, None, None] + sorted(FAILERS)), load_string=int(r.random() < 0.25),
                   second_db=r.choice([None, None, "wateq4f.dat", "pitzer.dat"]), flavour="asan" if i % 8 == 7 else "opt")


def build_history(ctx, case):
    r = ctx.rng("hist", case["hseed"])
    labels, pieces = [], []
    pool = DIRTIERS if case["hist_db"] in ("phreeqc.dat", "wateq4f.dat") else GENERIC
    k = r.randint(2, 8)
    for _ in range(k):
        f = r.choice(pool)
        lab, text = f(r)
        labels += lab
        pieces.append(text)
    if case["hist_db"] == "pitzer.dat" and r.random() < 0.7:
        lab, text = d_pitzer(r)
        labels += lab
        pieces.append(text)
    if case["hist_db"] == "sit.dat" and r.random() < 0.7:
        lab, text = d_sit(r)
        labels += lab
        pieces.append(text)
    setters = {}
    for nm in ("OutputFileOn", "LogFileOn", "ErrorFileOn", "DumpFileOn", "LogStringOn", "ErrorStringOn", "ErrorOn"):
        if r.random() < 0.3:
            setters[nm] = r.choice([0, 1])
    names = {}
    for nm in ("Output", "Log", "Dump", "Error"):
        if r.random() < 0.2:
            names[nm] = "%s_custom.txt" % nm.lower()
    selset = []
    if r.random() < 0.5:
        for n in r.sample([1, 2, 5], r.randint(1, 2)):
            selset.append((n, r.choice([0, 1]), r.choice([0, 1]), r.random() < 0.3))
    return labels, pieces, setters, names, selset


def _script(ctx, case, with_history):
    labels, pieces, setters, names, selset = build_history(ctx, case)
    s = core.Script()
    s.raw("new a")
    # things that legitimately survive a load: given to both processes
    s.raw("set a OutputStringOn 1")
    s.raw("set a DumpStringOn 1")
    for k, v in sorted(setters.items()):
        s.raw("set a %s %d" % (k, v))
    for k, v in sorted(names.items()):
        s.raw("set a %sFileName %s" % (k, v))
    for (n, so, fo, nm) in selset:
        if nm:
            s.raw("cur a %d" % n)
            s.raw("set a SelectedOutputFileName selcustom_%d.txt" % n)
    s.raw("cur a 1")
    if with_history:
        s.raw("tag history")
        s.raw("loaddb a " + os.path.join(ctx.db, case["hist_db"]))
        for (n, so, fo, nm) in selset:
            s.raw("cur a %d" % n)
            s.raw("set a SelectedOutputStringOn %d" % so)
            s.raw("set a SelectedOutputFileOn %d" % fo)
        for i, p in enumerate(pieces):
            s.run("a", p)
            if case["second_db"] and i == len(pieces) // 2:
                s.raw("loaddb a " + os.path.join(ctx.db, case["second_db"]))
        if case["fail"] == "bad_database_string":
            s.raw("tag failing")
            with open(os.path.join(ctx.db, "phreeqc.dat"), encoding="latin-1") as f:
                text = f.read()
            # the reader stops at the first END of the database text: the extra definitions go in front of it
            cut = re.search(r"(?m)^END[ \t]*\r?$", text)
            text = (text[:cut.start()] + BAD_DB_TAIL + text[cut.start():]) if cut else text + BAD_DB_TAIL
            s.raw("loaddbstr a " + s.text(text))
        elif case["fail"]:
            s.raw("tag failing")
            s.run("a", FAILERS[case["fail"]])
    s.raw("tag load")
    dbp = os.path.join(ctx.db, case["target"])
    if case["load_string"]:
        with open(dbp, encoding="latin-1") as f:
            s.raw("loaddbstr a " + s.text(f.read()))
    else:
        s.raw("loaddb a " + dbp)
    s.raw("snap a oldewscg")
    s.raw("cur a 1")
    s.raw("set a SelectedOutputStringOn 1")
    # the last probe defines selected output for the user numbers the history may have switched on or off (2 and 5) without touching their switches:
    # what their strings and files receive is part of the fresh-state behaviour
    probes = list(PROBES) + (PROBES_PHREEQC if case["target"] in ("phreeqc.dat", "wateq4f.dat", "Amm.dat") else []) + [
        ("copy-request", "SOLUTION 1\n Na 1\n Cl 1\nSOLUTION 2\n K 1\n Cl 1\nEND\nCOPY solution 1 5\nEND\nDUMP\n -solution 1-20\nEND\n"),
        ("other-user-numbers", "SELECTED_OUTPUT 2\n -reset false\n -totals Na\nSELECTED_OUTPUT 5\n -reset false\n -pH true\nSOLUTION 1\n Na 1\n Cl 1\nEND\n")]
    for name, text in probes:
        s.raw("tag probe:" + name)
        s.run("a", text)
        s.raw("snap a oldewscg")
    s.raw("del a")
    return s.bytes(), labels, len(pieces), probes


def _digest(rec):
    d = {}
    for ch in ("output", "log", "dump", "error", "warning"):
        d[ch] = rec[ch]["h"] if ch == "output" else (rec[ch]["len"], rec[ch]["h"])
    d["components"] = rec.get("components")
    d["get"] = {k: v for k, v in rec.get("get", {}).items()}
    d["selout"] = [(so["n"], so["rows"], so["cols"], so["th"], so["sh"], so["string_on"], so["file_on"], so["file_name"]) for so in rec["selout"]]
    d["selcur"] = rec.get("selcur")
    return d


def _first_diff(a, b):
    la, lb = a.split("\n"), b.split("\n")
    for i, (x, y) in enumerate(zip(la, lb)):
        if x != y:
            return "line %d: %r vs %r" % (i, x[:160], y[:160])
    return "length %d vs %d lines" % (len(la), len(lb))


def _mask(t):
    ls = t.split("\n")
    out = []
    for i, l in enumerate(ls):
        if "End of Run after" in l or (i + 1 < len(ls) and "End of Run after" in ls[i + 1]) or (i > 0 and "End of Run after" in ls[i - 1]):
            continue
        out.append(l)
    return "\n".join(out)


def run_case(ctx, case):
    cwd = ctx.scratch(case["id"])
    exe = ctx.bin(case["flavour"])
    res = {}
    labels = npieces = probes = None
    for who in ("A", "B"):
        d = os.path.join(cwd, who)
        os.makedirs(d)
        script, labels, npieces, probes = _script(ctx, case, who == "A")
        run = core.run_vdrive(exe, script, d, timeout=200 if case["flavour"] == "asan" else 60)
        pf = core.process_failure(run)
        if pf:
            if pf[0] in ("timeout", "harness"):
                return Result(INCONCLUSIVE, reason="%s (%s): %s" % (pf[0], who, (pf[2] or "")[:150]))
            lc = run["last_call"] or {}
            phase = lc.get("tag", "?")
            if who == "A" and phase in ("history", "failing"):
                # a crash inside the history itself is C08's business, not a statement about the reload
                return Result(INCONCLUSIVE, reason="history crashed before the load (%s)" % pf[1])
            return Result(VIOLATED, key="C07/%s/%s" % (pf[1], "during-load" if phase == "load" else "after-load"),
                          what="process %s ended abnormally in phase %s (history labels %s, failing=%s): %s" % (who, phase, sorted(set(labels)), case["fail"], pf[2][:2500]))
        res[who] = run
    ra = [r for r in res["A"]["records"] if r["ev"] == "ret" and (r.get("tag", "").startswith("probe:") or r.get("tag") == "load")]
    rb = [r for r in res["B"]["records"] if r["ev"] == "ret" and (r.get("tag", "").startswith("probe:") or r.get("tag") == "load")]
    hist_rets = [r.get("r") for r in res["A"]["records"] if r["ev"] == "ret" and r.get("tag") == "history" and r["op"] == "run"]
    if case["fail"] is None and any(hist_rets):
        pass   # a failing call in the middle of the history is outside the quantifier ("at most one failing call, at the end")
    nfailed_mid = sum(1 for x in hist_rets if x)
    if nfailed_mid:
        return Result(INCONCLUSIVE, reason="history contains a failing call before its end (outside the quantifier)")
    if len(ra) != len(rb):
        return Result(INCONCLUSIVE, reason="harness: record counts differ")
    loadret = [r for r in ra if r["op"] in ("loaddb", "loaddbstr")]
    if not loadret or loadret[0].get("r") != 0:
        return Result(VIOLATED if loadret else INCONCLUSIVE, key="C07/load-fails-after-history",
                      what="LoadDatabase(%s) returned %s after history %s fail=%s" % (case["target"], loadret[0].get("r") if loadret else None, sorted(set(labels)), case["fail"]),
                      reason="no load record")
    sigs = ["%s|%s|%s" % (case["target"], ",".join(sorted(set(labels))), case["fail"])] if npieces >= 2 else []
    sample = dict(id=case["id"], history_db=case["hist_db"], second_db=case["second_db"], dirtied=sorted(set(labels)), failing_call=case["fail"],
                  target=case["target"], load_via_string=case["load_string"], probes=[p[0] for p in probes], flavour=case["flavour"])
    for x, y in zip(ra, rb):
        tag = x.get("tag")
        if x["op"] in ("run", "loaddb", "loaddbstr"):
            if x.get("r") != y.get("r") or x.get("exc") != y.get("exc"):
                return Result(VIOLATED, key="C07/return-differs/%s" % tag, sample=sample,
                              what="%s: return %s/%s after history vs %s/%s fresh; history %s fail=%s" % (tag, x.get("r"), x.get("exc"), y.get("r"), y.get("exc"), sorted(set(labels)), case["fail"]))
        if x["op"] == "snap":
            da, db = _digest(x), _digest(y)
            if da != db:
                ch = next(k for k in da if da[k] != db[k])
                detail = "%r vs %r" % (da[ch], db[ch])
                if ch in ("output", "log", "dump", "error", "warning"):
                    ta, tb = x[ch].get("text", ""), y[ch].get("text", "")
                    if ch == "output":
                        ta, tb = _mask(ta), _mask(tb)
                    detail = _first_diff(ta, tb)
                elif ch == "selout":
                    detail = "tables/strings differ: %r vs %r" % (da[ch], db[ch])
                return Result(VIOLATED, key="C07/leftover/%s/%s" % (tag, ch), sample=sample,
                              what="%s channel %s differs between instance with history and fresh instance (%s). history dirtied %s, failing call %s, hist db %s"
                                   % (tag, ch, detail[:600], sorted(set(labels)), case["fail"], case["hist_db"]),
                              replay={"case": case})
    return Result(HELD, sigs=sigs, sample=sample,
                  stats={"n_probes": len(probes), "set_labels": sorted(set(labels)), "n_history_runs": npieces, "set_failing": [str(case["fail"])],
                         "set_targets": [case["target"]]})
