"""C09 - file, string and line views of each output stream are identical.

Monitor: for every combination of the file/string switches the harness records, after each of two
consecutive calls (switches re-drawn in between), the string of every stream, every line-accessor
result (incl. -1 and count), the bytes of every sink file on disk, and all tables.  The oracle relates
file to string to lines per stream and compares tables across switch settings of the same input.
"""
import os

from vlib import core, gens
from vlib.core import Result, HELD, VIOLATED, INCONCLUSIVE

PROP = "C09"
FLAVOURS = ["asan"]
RULE = ("cases: all 128 combinations of (output file/string, log file/string, dump file/string, error file) x inputs "
        "(quick: 7 fixed inputs incl. warnings, an input error, KNOBS -logfile, DUMP -append, several selected-output numbers; thorough repeats each with 8 draws of the random part), "
        "error-string and per-number selected-output switches drawn at random, custom or default file names, all switches re-drawn before a second call; "
        "non-trivial = at least one sink received >0 bytes; distinct = (switch vector, input, file-name mode)")
ASSUME = ["dump string/file equality is judged for calls in which both dump sinks were on since the instance was created",
          "selected-output string collection follows the *current* user number's switch (known finding, shared with C05); "
          "equality file==string is required whenever both are non-empty or both switches of that number agree with the current number's",
          "the elapsed-time banner is not masked: file and string receive the same bytes in one execution"]

STREAMS = ["output", "log", "dump", "error"]
NOTSET = "not set"

SEL2 = """SELECTED_OUTPUT 1
 -reset false
 -totals Na Cl Ca
 -ph true
SELECTED_OUTPUT 3
 -reset false
 -high_precision true
 -molalities Na+ Cl-
USER_PUNCH 3
 -headings a b
 10 PUNCH MU, TC
"""
INPUTS = {
    "react_dump": SEL2 + "SOLUTION 1\n Na 1\n Cl 1\n Ca 0.5\n C(4) 1\nREACTION 1\n HCl 1\n 1 mmol in 3 steps\nSAVE solution 2\nEND\nDUMP\n -all\nEND\n",
    "warnings": SEL2 + "SOLUTION 1\n Na 1\n Cl 1\n pH 7 charge\nUSER_PUNCH 1\n -headings only_one\n 10 PUNCH 1, 2, 3\nSOLUTION 2\n Na 2\n Cl 1 charge\n pH 3\nEND\nUSE solution 1\nEQUILIBRIUM_PHASES 1\n Calcite 0 0\n Nonexistent_zero 0 0\nEND\n",
    "error": SEL2 + "SOLUTION 1\n Na 1\n Cl 1\n Xx 3\nEND\nSOLUTION 2\n Na 1\nEND\n",
    "logfile": "KNOBS\n -logfile true\n -iterations 150\n" + SEL2 + "SOLUTION 1\n Na 1\n Cl 1\n Ca 2\n S(6) 2\nEQUILIBRIUM_PHASES 1\n Gypsum 0 1\n Calcite 0 1\nREACTION 1\n NaCl 1\n 1 2 3 mmol\nEND\n",
    "dump_append": "SOLUTION 1\n K 1\n Cl 1\nEND\nDUMP\n -solution 1\nEND\nSOLUTION 2\n K 2\n Cl 2\nEND\nDUMP\n -append true\n -solution 2\nEND\n",
    # read-outs of per-phase state (Peng-Robinson pressure / fugacity coefficient of a gas held as a pure phase) in a later simulation without that phase:
    # what is left behind after a step must not depend on whether anything was printed
    "pr_gas": SEL2 + "USER_PUNCH 1\n -headings prp prphi\n 10 PUNCH PR_P(\"CO2(g)\"), PR_PHI(\"CO2(g)\")\nSOLUTION 1\n Na 1\n Cl 1\n C(4) 1\nEQUILIBRIUM_PHASES 1\n CO2(g) 1.7 10\nEND\n"
              "USE solution 1\nREACTION 1\n NaCl 1\n 1 mmol\nEND\n",
    "long_punch": SEL2 + "USER_PUNCH 1\n -headings a b c\n 10 PUNCH PAD(\"x\", 3000), PAD(\"y\", 5000), PAD(\"z\", 10000)\nSOLUTION 1\n Na 1\n Cl 1\nEND\n",      # values longer than the 4096-byte formatting buffer
    "advect": SEL2 + "SOLUTION 0\n Na 1\n Cl 1\nSOLUTION 1-3\n K 1\n N(5) 1\nADVECTION\n -cells 3\n -shifts 4\n -punch_frequency 1\n -print_frequency 2\nPRINT\n -selected_output true\nEND\n",
}
# run with no database loaded: the call fails at once, but the sinks that are on still get (the same) bytes
NODB = "SOLUTION 1\n Na 1\n Cl 1\nEND\n"
SECOND = "USE solution 1\nREACTION 1\n NaCl 1\n 0.5 mmol\nEND\nDUMP\n -all\nEND\n"
SECOND_AFTER_ERROR = "SOLUTION 1\n Na 1\n Cl 1\nEND\n" + SECOND


def gen_cases(ctx):
    quick = ctx.tier == "quick"
    inputs = list(INPUTS) + ["nodb"]
    rng = ctx.rng("cases")
    # thorough: every input x switch combination is repeated with 8 different draws of the random part (error / selected-output switches, current numbers,
    # file-name mode, and all switches of the second call).  Seeded multi-simulation inputs were tried and dropped: they may switch punching off (PRINT
    # -selected_output false) or leave the first call with errors, which the per-number oracle below does not model - its alarms there were the oracle's, not the code's
    variants = 1 if quick else 8
    i = 0
    combos = range(128)
    for name, var in [(n_, v_) for v_ in range(variants) for n_ in inputs]:
        for m in combos:
            if ctx.params.get("cases") and i >= ctx.params["cases"]:
                return
            r = ctx.rng("case", name, m) if var == 0 else ctx.rng("case", name, m, var)
            sw = dict(OutputFileOn=m & 1, OutputStringOn=m >> 1 & 1, LogFileOn=m >> 2 & 1, LogStringOn=m >> 3 & 1,
                      DumpFileOn=m >> 4 & 1, DumpStringOn=m >> 5 & 1, ErrorFileOn=m >> 6 & 1,
                      ErrorStringOn=int(r.random() < 0.8))
            sel = {str(n): [int(r.random() < 0.6), int(r.random() < 0.6)] for n in (1, 3)}
            sw2 = {k: int(r.random() < 0.5) for k in sw}
            sel2 = {str(n): [int(r.random() < 0.6), int(r.random() < 0.6)] for n in (1, 3)}
            i += 1
            c = dict(id="%s-%03d%s" % (name, m, "" if var == 0 else "-v%d" % var), input=name, sw=sw, sel=sel, sw2=sw2, sel2=sel2, custom=int(r.random() < 0.5),
                     cur=r.choice([1, 3, 1, 8]), cur2=r.choice([1, 3]),
                     deliver=[r.choice(["run", "run", "runfile", "acc"]) for _ in range(2)])
            if name == "nodb":
                c["nodb"] = r.choice(["never", "failed-load"])
            c["load_string"] = int(r.random() < 0.4)
            c["switches_first"] = int(r.random() < 0.5)
            if name.startswith("gen"):
                c["gseed"] = ctx.rng("g", name).randrange(1 << 30)
            yield c


def _input(ctx, case):
    if case["input"] == "nodb":
        return NODB
    if case["input"] in INPUTS:
        return INPUTS[case["input"]]
    return SEL2 + gens.multi_sim_input(ctx.rng("gen", case["gseed"]), selout=False) + "DUMP\n -all\nEND\n"      # the generated part brings no selected-output blocks of its own: the oracle knows numbers 1 and 3


def _names(custom):
    if custom:
        return dict(Output="o.txt", Log="l.txt", Dump="d.txt", Error="e.txt")
    return {}


def run_case(ctx, case):
    cwd = ctx.scratch(case["id"])
    text = _input(ctx, case)
    s = core.Script()
    s.raw("new a")

    def load():
        # the database arrives as a file or as a string, before or after the switches are set: the switches are the user's, a load keeps them
        dbp_ = os.path.join(ctx.db, "phreeqc.dat")
        if case.get("load_string"):
            with open(dbp_, encoding="latin-1") as f_:
                s.raw("loaddbstr a " + s.text(f_.read()))
        else:
            s.raw("loaddb a " + dbp_)
    early = case.get("switches_first") and case["input"] != "nodb"
    if case["input"] != "nodb":
        if not early:
            load()
    elif case["nodb"] == "failed-load":
        s.raw("loaddb a /nonexistent_dir/none.dat")
    for k, v in _names(case["custom"]).items():
        s.raw("set a %sFileName %s" % (k, v))
    selnames = {}

    def apply(sw, sel, cur, skip_global=False):
        for k, v in sorted(sw.items()):
            if not skip_global:
                s.raw("set a %s %d" % (k, v))
        for n, (so, fo) in sorted(sel.items()):
            s.raw("cur a %s" % n)
            s.raw("set a SelectedOutputStringOn %d" % so)
            s.raw("set a SelectedOutputFileOn %d" % fo)
            if case["custom"]:
                s.raw("set a SelectedOutputFileName sel%s.txt" % n)
        s.raw("cur a %d" % cur)

    def deliver(how, content):
        if how == "runfile":
            s.raw("writefile unit.pqi %s" % s.text(content))
            s.raw("runfile a unit.pqi")
        elif how == "acc":
            s.raw("acc a %s" % s.text(content))
            s.raw("runacc a")
        else:
            s.run("a", content)

    if early:
        # only the global switches: per-user-number selected-output switches are reset by a load (C07)
        for k, v in sorted(case["sw"].items()):
            s.raw("set a %s %d" % (k, v))
        load()
    apply(case["sw"], case["sel"], case["cur"], skip_global=bool(early))      # after an early load the global switches are not touched again: the load must have kept them
    s.raw("tag call1")
    deliver(case.get("deliver", ["run", "run"])[0], text)
    s.raw("snap a oldewsfLgc")
    s.raw("tag reload")
    if case["input"] in ("error", "nodb"):
        s.raw("loaddb a " + os.path.join(ctx.db, "phreeqc.dat"))
    # remove sink files so that 'a disabled sink receives nothing' is observable for call 2
    s.raw("tag clean")
    for f in ("o.txt", "l.txt", "e.txt", "phreeqc.0.out", "phreeqc.0.log", "phreeqc.0.err", "sel1.txt", "sel3.txt",
              "selected_1.0.out", "selected_3.0.out"):
        s.raw("rm " + f)
    apply(case["sw2"], case["sel2"], case["cur2"])
    s.raw("tag call2")
    deliver(case.get("deliver", ["run", "run"])[1], SECOND_AFTER_ERROR if case["input"] in ("error", "nodb") else SECOND)
    s.raw("snap a oldewsfLgc")
    s.raw("ls .")
    s.raw("del a")
    run = core.run_vdrive(ctx.bin("asan"), s.bytes(), cwd, timeout=180)
    pf = core.process_failure(run)
    if pf:
        if pf[0] in ("timeout", "harness"):
            return Result(INCONCLUSIVE, reason="%s: %s" % (pf[0], (pf[2] or "")[:200]))
        return Result(VIOLATED, key="C09/%s" % pf[1], what="process ended abnormally (%s): %s" % (pf[0], pf[2][:2500]))
    snaps = [r for r in run["records"] if r["ev"] == "ret" and r["op"] == "snap"]
    runs = [r for r in run["records"] if r["ev"] == "ret" and r["op"] in ("run", "runfile", "runacc")]
    if len(snaps) != 2 or len(runs) != 2:
        return Result(INCONCLUSIVE, reason="harness: incomplete log")
    findings = []
    received = 0

    def bad(key, what):
        findings.append(("C09/" + key, "%s [case %s]" % (what, case["id"])))

    aux = {}
    for ci, (snap, sw, sel, cur) in enumerate([(snaps[0], case["sw"], case["sel"], case["cur"]), (snaps[1], case["sw2"], case["sel2"], case["cur2"])]):
        call = "call %d" % (ci + 1)
        g = snap["get"]
        for k, v in sw.items():
            if g.get(k) != v:
                bad("switch-readback", "%s: %s set to %s, read back %s" % (call, k, v, g.get(k)))
        for st in STREAMS:
            son = sw["%sStringOn" % st.capitalize()]
            fon = sw["%sFileOn" % st.capitalize()]
            text_s = snap[st].get("text", "")
            f = snap["files"][st]
            L = snap["lines"][st]
            lines = text_s.split("\n")
            if lines and lines[-1] == "":
                lines.pop()
            if st == "dump":
                # the dump string persists between calls until the next DUMP; judged when on for the whole history
                on_all = all(x["DumpStringOn"] for x in [case["sw"], case["sw2"]][:ci + 1])
                fon_all = all(x["DumpFileOn"] for x in [case["sw"], case["sw2"]][:ci + 1])
                if son and L["l"] != lines and on_all:
                    bad("lines-vs-string/dump", "%s: dump line accessors (%d) differ from dump string lines (%d)" % (call, L["n"], len(lines)))
                if on_all and fon_all and f is not None and f["text"] != text_s:
                    bad("file-vs-string/dump", "%s: dump file (%d bytes) differs from dump string (%d bytes)" % (call, f["len"], len(text_s)))
                if ci == 0 and not son and text_s != "" and NOTSET not in text_s:
                    bad("disabled-sink/dump-string", "%s: DumpStringOn=0 but dump string holds %d bytes" % (call, len(text_s)))
                if ci == 0 and not fon and f is not None and f["len"] > 0:
                    bad("disabled-sink/dump-file", "%s: DumpFileOn=0 but dump file holds %d bytes" % (call, f["len"]))
                if L["m1"] != "" or L["pn"] != "":
                    bad("line-oob/dump", "%s: dump line accessor outside range returned %r/%r" % (call, L["m1"], L["pn"]))
                if son and text_s:
                    received += 1
                continue
            if st == "error":
                if son:
                    if L["l"] != lines or L["n"] != len(lines):
                        bad("lines-vs-string/error", "%s: error line accessors (%d) differ from error string lines (%d)" % (call, L["n"], len(lines)))
                    if fon and lines:
                        ftxt = f["text"] if f else ""
                        fl = ftxt.split("\n")
                        pos = 0
                        for ln in lines:
                            try:
                                pos = fl.index(ln, pos) + 1
                            except ValueError:
                                bad("error-file-subsequence", "%s: error-string line %r does not occur (in order) in the error file (%d bytes)" % (call, ln[:100], len(ftxt)))
                                break
                else:
                    if text_s != "" and NOTSET not in text_s:
                        bad("disabled-sink/error-string", "%s: ErrorStringOn=0 but error string holds %r" % (call, text_s[:80]))
                if not fon and f is not None:
                    bad("disabled-sink/error-file", "%s: ErrorFileOn=0 but error file exists (%d bytes)" % (call, f["len"]))
                if L["m1"] != "" or L["pn"] != "":
                    bad("line-oob/error", "%s: error line accessor outside range returned %r/%r" % (call, L["m1"], L["pn"]))
                if text_s:
                    received += 1
                continue
            # output, log
            if son:
                if L["l"] != lines or L["n"] != len(lines):
                    bad("lines-vs-string/" + st, "%s: %s line accessors (%d) differ from string lines (%d)" % (call, st, L["n"], len(lines)))
                if text_s:
                    received += 1
            else:
                if text_s != "" and NOTSET not in text_s:
                    bad("disabled-sink/%s-string" % st, "%s: %sStringOn=0 but string holds %d bytes" % (call, st, len(text_s)))
                if L["n"] != 0:
                    bad("disabled-sink/%s-string" % st, "%s: %sStringOn=0 but %d lines reported" % (call, st, L["n"]))
            if L["m1"] != "" or L["pn"] != "":
                bad("line-oob/" + st, "%s: %s line accessor outside range returned %r/%r" % (call, st, L["m1"], L["pn"]))
            if fon:
                if f is None:
                    bad("file-missing/" + st, "%s: %sFileOn=1 but file %s absent" % (call, st, g.get(st.capitalize() + "FileName")))
                elif son and f["text"] != text_s:
                    a, b = f["text"], text_s
                    k = next((i for i in range(min(len(a), len(b))) if a[i] != b[i]), min(len(a), len(b)))
                    bad("file-vs-string/" + st, "%s: %s file (%d bytes) differs from string (%d bytes) at byte %d: %r vs %r" % (call, st, len(a), len(b), k, a[k:k + 40], b[k:k + 40]))
                if f is not None and f["len"]:
                    received += 1
            else:
                if f is not None:
                    bad("disabled-sink/%s-file" % st, "%s: %sFileOn=0 but file exists (%d bytes)" % (call, st, f["len"]))
        # selected output per number
        cur_sw = sel.get(str(cur), [0, 0])[0]
        for so in snap["selout"]:
            n = str(so["n"])
            want = sel.get(n, [0, 0])
            st_ = so["string"]
            present = st_ != "" and NOTSET not in st_
            ls = st_.split("\n") if present else []
            if ls and ls[-1] == "":
                ls.pop()
            if ls != so["lines"]:
                bad("lines-vs-string/selected", "%s user %s: line accessors (%d) differ from string lines (%d)" % (call, n, so["nlines"], len(ls)))
            if so["line_m1"] != "" or so["line_pn"] != "":
                bad("line-oob/selected", "%s user %s: line accessor outside range returned text" % (call, n))
            f = so.get("file")
            if want[1]:
                if f is None:
                    bad("file-missing/selected", "%s user %s: file switch on but %s absent" % (call, n, so["file_name"]))
                elif present and f["text"] != st_:
                    bad("file-vs-string/selected", "%s user %s: file (%d bytes) differs from string (%d bytes): file=%r string=%r" % (call, n, f["len"], len(st_), f["text"][:300], st_[:300]))
                if f is not None and f["len"]:
                    received += 1
            elif f is not None and f["len"] > 0:
                bad("disabled-sink/selected-file", "%s user %s: file switch off but %s holds %d bytes" % (call, n, so["file_name"], f["len"]))
            if bool(want[0]) != present and so["rows"] > 1:
                if bool(cur_sw) == present:
                    bad("selected-string-switch-follows-current-number", "%s user %s: string switch %d, string %s (current number %d has switch %d)"
                        % (call, n, want[0], "filled" if present else "empty", cur, cur_sw))
                else:
                    bad("disabled-sink/selected-string", "%s user %s: string switch %d but string %s" % (call, n, want[0], "filled" if present else "empty"))
        aux["c%d" % ci] = [(so["n"], so["th"], _numeric(so)) for so in snap["selout"]]
    aux["rets"] = [r["r"] for r in runs]
    sig = []
    if received:
        sig = ["%s|%s|%s|%d" % (case["input"], sorted(case["sw"].items()), sorted(case["sel"].items()), case["custom"])]
    sample = dict(id=case["id"], input=case["input"], switches=case["sw"], sel=case["sel"], switches2=case["sw2"], custom_names=case["custom"],
                  returns=aux["rets"], sinks_with_bytes=received)
    stats = {"n_sinks_with_bytes": received, "n_calls": 2}
    if findings:
        k, w = findings[0]
        res = Result(VIOLATED, key=k, what=w, findings=findings[1:], sigs=sig, sample=sample, stats=stats)
    else:
        res = Result(HELD, sigs=sig, sample=sample, stats=stats)
    res["aux"] = aux
    res["input"] = case["input"]
    return res


def _numeric(so):
    out = []
    for row in so.get("cells", [])[1:]:
        out.append([c[1] if c[0] in ("d", "l", "s") else None for c in row])
    return out


def finish(ctx, results):
    """results (tables, return values) must not depend on the switch vector: compare every case of an input with the first one"""
    ref = {}
    extra = []
    ncmp = 0
    for r in results:
        aux = r.get("aux")
        if not aux:
            continue
        key = r["input"]
        if key not in ref:
            ref[key] = (r["case_id"], aux)
            continue
        rid, ra = ref[key]
        ncmp += 1
        if ra["rets"] != aux["rets"]:
            extra.append(Result(VIOLATED, key="C09/results-depend-on-switches/return",
                                what="input %s: return values %s (case %s) vs %s (case %s)" % (key, ra["rets"], rid, aux["rets"], r["case_id"])))
            continue
        # call 2 depends on sw2 only through sinks as well; compare both calls
        for c in ("c0", "c1"):
            ta, tb = ra[c], aux[c]
            if [x[0] for x in ta] != [x[0] for x in tb]:
                extra.append(Result(VIOLATED, key="C09/results-depend-on-switches/tables", what="input %s %s: user numbers differ between %s and %s" % (key, c, rid, r["case_id"])))
                break
            bad = None
            for (n, ha, va), (_, hb, vb) in zip(ta, tb):
                if ha == hb:
                    continue
                if len(va) != len(vb):
                    bad = "user %d: %d vs %d rows" % (n, len(va), len(vb))
                    break
                for i, (rowa, rowb) in enumerate(zip(va, vb)):
                    for j, (x, y) in enumerate(zip(rowa, rowb)):
                        if x == y:
                            continue
                        try:
                            fx, fy = float(x), float(y)
                            if abs(fx - fy) <= 1e-6 * max(abs(fx), abs(fy)):
                                continue
                        except (TypeError, ValueError):
                            pass
                        bad = "user %d row %d col %d: %s vs %s" % (n, i + 1, j, x, y)
                        break
                    if bad:
                        break
                if bad:
                    break
            if bad:
                extra.append(Result(VIOLATED, key="C09/results-depend-on-switches/tables",
                                    what="input %s %s: %s (cases %s vs %s differ only in sink switches)" % (key, c, bad, rid, r["case_id"])))
                break
    for r in results:
        r.pop("aux", None)
    return {"coverage": {"cross_switch_table_comparisons": ncmp}, "results": extra}
