"""C15 - results are invariant under physically irrelevant changes of the input.

Monitor (metamorphic, same binary): a seeded base system (solution + optional REACTION, EQUILIBRIUM_PHASES, EXCHANGE, SURFACE,
GAS_PHASE, KINETICS) is rendered in several equivalent ways - other concentration units (mol, mmol, umol per kgw; mg/kgw,
ug/kgw, ppm-free per-element units with gfw from the database's own element table, 'as' formulas, explicit gfw), water mass and
all extensive amounts scaled by a common factor, entities renumbered, constituents and independent blocks permuted, an identical
definition repeated, SOLUTION_SPREAD instead of SOLUTION, the solution replaced by a self-mix or a re-ordered mix - and run on
fresh instances.  Oracle: intensive results (pH, ionic strength, molal totals, molalities, saturation indices) agree to 1e-8
relative; extensive results (moles of phases, gas, kinetic reactant) scale by the water factor.
"""
import os

from vlib import core, gens, dbparse
from vlib.core import Result, HELD, VIOLATED, INCONCLUSIVE
from props import c01

PROP = "C15"
FLAVOURS = ["opt"]
RULE = ("cases: seeded base systems of 7 kinds (speciation, reaction, minerals, exchange, surface, gas, kinetics) x 12 transformations (units, per-element units incl. mass units and 'as'/gfw, "
        "water scaling 1e-3..1e3, renumbering, permutation, repeated definition, SOLUTION_SPREAD without and with a units row (per-column units, 'as', gfw; columns permuted), self-mix, mix reordering, two different solutions (other temperature) mixed in the other order, "
        "the second of them described with g x the water and taken at 1/g of the fraction); distinct & non-trivial = distinct (base kind, transformation) pairs in which both members ran error-free")
ASSUME = ["both members use KNOBS -convergence_tolerance 1e-12", "dissolved O2 pins the redox state (a floating pe is not an intensive result of the input)",
          "mass units are converted with formula weights computed from the database's element table, the way the manual defines them", "cases sitting on a phase (dis)appearance boundary are inconclusive",
          "gas-phase columns (pressure, moles, volume) are compared at the solver's measured noise floor 5e-6 instead of 1e-8"]

ELS = {"Na": ("Na", 1), "K": ("K", 1), "Ca": ("Ca", 2), "Mg": ("Mg", 2), "Cl": ("Cl", -1), "S(6)": ("SO4", -2), "C(4)": ("HCO3", -1), "Sr": ("Sr", 2), "Br": ("Br", -1), "Li": ("Li", 1)}
SEL = ("SELECTED_OUTPUT 1\n -reset false\n -high_precision true\n -pH true\n -temperature true\n -ionic_strength true\n -totals Na K Ca Mg Cl S(6) C(4) Sr Br Li\n -molalities Na+ Cl- Ca+2 HCO3- CaSO4 OH- NaX CaX2 Hfo_wOH Hfo_wOCa+\n"
       " -saturation_indices Calcite Gypsum Halite CO2(g) Celestite\n -equilibrium_phases Calcite Gypsum Celestite\n -gases CO2(g) N2(g)\n -kinetic_reactants first_rate\n"
       "USER_PUNCH 1\n -headings rho soln_vol sc\n -start\n 10 PUNCH RHO, SOLN_VOL, SC\n -end\n")      # density and conductance are intensive, the solution volume scales with the water
EXTENSIVE_PREFIX = ("Calcite", "d_Calcite", "Gypsum", "d_Gypsum", "Celestite", "d_Celestite", "g_", "k_", "dk_", "volume", "soln_vol")
KNOBS = "KNOBS\n -convergence_tolerance 1e-12\n -iterations 300\n"


def gen_cases(ctx):
    n = ctx.params.get("cases") or (300 if ctx.tier == "quick" else 6000)
    for i in range(n):
        yield dict(id="m%05d" % i, i=i)


def formula_weight(db, formula):
    w = 0.0
    for e, c in dbparse.parse_formula(formula).items():
        g = db.elements.get(e, {}).get("gfw")
        if g is None:
            raise KeyError(e)
        w += c * g
    return w


def default_gfw(db, el):
    d = db.elements[el]
    if d.get("gfw_formula"):
        return formula_weight(db, d["gfw_formula"])
    return d.get("gfw_number")


def make_spec(r):
    els = ["Na", "Cl"] + r.sample(["K", "Ca", "Mg", "S(6)", "C(4)", "Sr", "Br", "Li"], r.randint(1, 5))
    conc = {e: gens.loguni(r, 1e-5, 3e-2) for e in els}
    kind = r.choice(["spec", "react", "eq", "exch", "surf", "gas", "kin"])
    spec = dict(conc=conc, ph=round(r.uniform(5.5, 9), 2), temp=r.choice([25, 25, 15, 40]), kind=kind, water=1.0)
    f = gens.fmt
    if kind == "react":
        spec["react"] = [(r.choice(["NaCl", "HCl", "CaCl2", "NaHCO3", "MgSO4"]), 1.0)]
        spec["amount"] = gens.loguni(r, 1e-4, 5e-3)
    elif kind == "eq":
        spec["phases"] = [(p, 0.0, gens.loguni(r, 1e-3, 0.05)) for p in r.sample(["Calcite", "Gypsum", "Celestite"], r.randint(1, 2))]
    elif kind == "exch":
        spec["exch"] = gens.loguni(r, 1e-3, 0.05)
    elif kind == "surf":
        spec["surf"] = (gens.loguni(r, 2e-4, 2e-3), 600, gens.loguni(r, 0.2, 2))
    elif kind == "gas":
        spec["gas"] = (gens.loguni(r, 0.2, 2), {"CO2(g)": gens.loguni(r, 1e-3, 0.1), "N2(g)": gens.loguni(r, 0.1, 0.8)})
    elif kind == "kin":
        spec["kin"] = (gens.loguni(r, 1e-3, 1e-2), gens.loguni(r, 1e-6, 1e-4), gens.loguni(r, 1e3, 1e4))
    # a second, different solution (other temperature and composition) for the two-solution mixes
    spec["sol2"] = dict(conc={e: c * gens.loguni(r, 0.2, 5) for e, c in conc.items()}, ph=round(r.uniform(5.5, 9), 2), temp=r.choice([5, 10, 35, 60, 80]))
    spec["mixf"] = (round(r.uniform(0.2, 1.5), 3), round(r.uniform(0.2, 1.5), 3))
    return spec


def render(db, spec, r, tr):
    """returns input text for transformation tr"""
    f = lambda x: "%.10g" % x
    num = 1
    wf = 1.0
    conc = dict(spec["conc"])
    order = list(conc)
    units = "mol/kgw"
    per = {}
    if tr == "renumber":
        num = r.choice([2, 7, 42, 300])
    if tr == "water":
        wf = r.choice([1e-3, 0.05, 0.5, 2, 20, 1e3])
    if tr in ("permute", "spreadunits"):
        r.shuffle(order)
    if tr == "units":
        units = r.choice(["mmol/kgw", "umol/kgw"])
    sc = {"mol/kgw": 1.0, "mmol/kgw": 1e3, "umol/kgw": 1e6}[units]
    lines, cols = [], []
    for e in order:
        c = conc[e] * sc
        suffix = ""
        if tr in ("perelement", "spreadunits") and r.random() < 0.7:
            how = r.choice(["mmol", "mg", "ug", "as", "gfw"])
            if how == "mmol":
                c, suffix = conc[e] * 1e3, " mmol/kgw"
            elif how == "mg":
                c, suffix = conc[e] * default_gfw(db, e.split("(")[0]) * 1e3, " mg/kgw"
            elif how == "ug":
                c, suffix = conc[e] * default_gfw(db, e.split("(")[0]) * 1e6, " ug/kgw"
            elif how == "as":
                form = {"C(4)": "CO3", "S(6)": "S", "Ca": "CaCO3", "Na": "NaCl", "Mg": "Mg"}.get(e)
                if form:
                    c, suffix = conc[e] * formula_weight(db, form) * 1e3, " mg/kgw as %s" % form
            else:
                g = round(r.uniform(10, 200), 3)
                c, suffix = conc[e] * g * 1e3, " mg/kgw gfw %s" % f(g)
        lines.append(" %s %s%s" % (e, f(c), suffix))
        cols.append((e, f(c), suffix.strip()))
    o2 = 2e-4 * sc
    body = " temp %s\n pH %s\n units %s\n" % (f(spec["temp"]), f(spec["ph"]), units) + "\n".join(lines) + "\n O(0) %s\n" % f(o2)
    if wf != 1.0:
        body += " -water %s\n" % f(wf)
    t = KNOBS + SEL
    if tr == "spreadunits":
        # SOLUTION_SPREAD with a units row: every column (also the last one) may carry its own units, 'as' formula or gfw; O(0) sits somewhere in between
        cc = cols[:]
        cc.insert(r.randint(0, len(cc) - 1), ("O(0)", f(2e-4), ""))
        heads = ["Number", "temp", "pH"] + [c_[0] for c_ in cc]
        urow = ["", "", ""] + [c_[2] for c_ in cc]
        vals = [str(num), f(spec["temp"]), f(spec["ph"])] + [c_[1] for c_ in cc]
        t += "SOLUTION_SPREAD\n -units mol/kgw\n" + "\t".join(heads) + "\n" + "\t".join(urow) + "\n" + "\t".join(vals) + "\n"
    elif tr == "spread":
        heads = ["Number", "temp", "pH"] + order + ["O(0)"]
        vals = [str(num), f(spec["temp"]), f(spec["ph"])] + [f(conc[e]) for e in order] + [f(2e-4)]
        t += "SOLUTION_SPREAD\n -units mol/kgw\n" + "\t".join(heads) + "\n" + "\t".join(vals) + "\n"
    else:
        t += "SOLUTION %d\n" % num + body
    if tr == "repeat":
        t += "SOLUTION %d\n" % num + body
    blocks = []
    k = spec["kind"]
    if k == "react":
        blocks.append("REACTION %d\n" % num + "".join(" %s %s\n" % (n, f(c)) for n, c in spec["react"]) + " %s mol\n" % f(spec["amount"] * wf))
    if k == "eq":
        ph = list(spec["phases"])
        if tr == "permute":
            r.shuffle(ph)
        blocks.append("EQUILIBRIUM_PHASES %d\n" % num + "".join(" %s %s %s\n" % (p, f(si), f(a * wf)) for p, si, a in ph))
    if k == "exch":
        blocks.append("EXCHANGE %d\n X %s\n -equilibrate %d\n" % (num, f(spec["exch"] * wf), num))
    if k == "surf":
        s_, area, mass = spec["surf"]
        blocks.append("SURFACE %d\n -equilibrate %d\n Hfo_wOH %s %s %s\n" % (num, num, f(s_ * wf), f(area), f(mass * wf)))
    if k == "gas":
        vol, comps = spec["gas"]
        blocks.append("GAS_PHASE %d\n -fixed_volume\n -volume %s\n -temperature %s\n" % (num, f(vol * wf), f(spec["temp"])) + "".join(" %s %s\n" % (g, f(p)) for g, p in comps.items()))
    if k == "kin":
        m0, kk, T = spec["kin"]
        t += gens.RATE_SIMPLE
        blocks.append("KINETICS %d\n first_rate\n -formula NaCl 1\n -m0 %s\n -parms %s\n -tol %s\n -steps %s\n -runge_kutta 6\n" % (num, f(m0 * wf), f(kk), f(1e-12 * wf), f(T)))      # -tol is an amount: it scales too
    if tr in ("permute", "repeat") and len(blocks) and r.random() < 0.5:
        blocks = blocks + blocks if tr == "repeat" else blocks
    if tr in ("mix2base", "mix2order", "mix2split"):
        # two different solutions mixed: listed in the other order, or the second one described with g times the water (and everything in it) and taken at 1/g of the fraction
        s2 = spec["sol2"]
        g = r.choice([0.25, 0.5, 2.0, 4.0]) if tr == "mix2split" else 1.0
        body2 = " temp %s\n pH %s\n units mol/kgw\n" % (f(s2["temp"]), f(s2["ph"])) + "".join(" %s %s\n" % (e, f(c)) for e, c in s2["conc"].items()) + " O(0) %s\n" % f(2e-4)
        if g != 1.0:
            body2 += " -water %s\n" % f(g)
        a, b = spec["mixf"]
        t += "SOLUTION 2\n" + body2 + "END\n"
        pair = [" %d %s\n" % (num, f(a)), " 2 %s\n" % f(b / g)]
        if tr == "mix2order":
            pair.reverse()
        t += "MIX %d\n" % num + "".join(pair) + "".join(blocks)
        if not blocks:
            t += "REACTION %d\n H2O 1\n 0 mol\n" % num
    elif tr in ("selfmix", "mixorder"):
        # the initial solution is calculated first; the reaction step then uses a mix that is identical to it
        t += "END\n"
        if tr == "selfmix":
            a = round(r.uniform(0.1, 0.9), 3)
            t += "MIX %d\n %d %s\n %d %s\n" % (num, num, f(a), num, f(1 - a))
        else:
            t += "COPY solution %d 77\nEND\nMIX %d\n 77 0.5\n %d 0.5\n" % (num, num, num)
        t += "".join(blocks)
        if not blocks:
            t += "REACTION %d\n H2O 1\n 0 mol\n" % num
    else:
        t += "".join(blocks)
        if tr in ("base",) and not blocks:
            pass
    return t + "END\n", wf


TRANSFORMS = ["units", "perelement", "water", "renumber", "permute", "repeat", "spread", "selfmix", "mixorder", "mix2order", "mix2split", "mix2split", "spreadunits"]


def last_rows(snap):
    cells = snap["selout"][0]["cells"]
    hd = [c[1] for c in cells[0]]
    return hd, cells[1:]


def run_case(ctx, case):
    db = c01.get_db(ctx, "phreeqc.dat")
    r = ctx.rng("meta", case["i"])
    spec = make_spec(r)
    tr = r.choice(TRANSFORMS)
    rb = ctx.rng("meta", case["i"], "b")
    try:
        base_tr = "base" if tr not in ("selfmix", "mixorder") else "basemix"
        if tr in ("mix2order", "mix2split"):
            t1, _ = render(db, spec, rb, "mix2base")
        elif base_tr == "basemix":
            # base member of the mix transformations: the same two-simulation shape with a plain USE
            t1, _ = render(db, spec, rb, "selfmix")
            import re
            t1 = re.sub(r"MIX \d+\n \d+ [0-9.e+-]+\n \d+ [0-9.e+-]+\n", "USE solution 1\n", t1)
        else:
            t1, _ = render(db, spec, rb, "base")
        t2, wf = render(db, spec, ctx.rng("meta", case["i"], "t"), tr)
    except KeyError as e:
        return Result(INCONCLUSIVE, reason="no gfw for %s" % e)
    cwd = ctx.scratch(case["id"])
    s = core.Script()
    for nm, t in (("a", t1), ("b", t2)):
        s.raw("new " + nm)
        s.raw("loaddb %s %s" % (nm, os.path.join(ctx.db, "phreeqc.dat")))
        s.run(nm, t)
        s.raw("snap %s se" % nm)
    run = core.run_vdrive(ctx.bin("opt"), s.bytes(), cwd, timeout=120)
    if core.process_failure(run):
        return Result(INCONCLUSIVE, reason="process failure")
    rr, sn = core.rets(run, "run"), core.rets(run, "snap")
    if len(rr) < 2 or rr[0].get("r") != 0 or rr[1].get("r") != 0 or not sn[0]["selout"] or not sn[1]["selout"]:
        et = ""
        for x in sn:
            et = et or x["error"].get("text", "").strip().split("\n")[0]
        return Result(INCONCLUSIVE, reason="a member reports errors: " + " ".join(et.split())[:50])
    h1, r1 = last_rows(sn[0])
    h2, r2 = last_rows(sn[1])
    if h1 != h2 or not r1 or not r2:
        return Result(INCONCLUSIVE, reason="tables not comparable")
    a, b = r1[-1], r2[-1]
    findings = []
    ncmp, worst = 0, 0.0
    for h, x, y in zip(h1, a, b):
        if x[0] not in "dl" or y[0] not in "dl":
            continue
        fx, fy = float(x[1]), float(y[1])
        ext = h.startswith(EXTENSIVE_PREFIX) or h in ("pressure", "total mol")
        if h == "pressure":
            ext = False
        if ext:
            fy = fy / wf
        ncmp += 1
        if h.startswith("si_") and (fx < -900 or fy < -900):
            continue
        sc = max(abs(fx), abs(fy))
        if sc < 1e-13:
            continue
        rel = abs(fx - fy) / sc
        tol = 1e-8
        if h in ("pH",) or h.startswith("si_"):
            rel, tol = abs(fx - fy), 1e-8 * max(1.0, sc)
        if h.startswith(("d_", "dk_")):
            tol = 1e-6       # differences of nearly equal amounts
        if h in ("Calcite", "Gypsum", "Celestite"):
            tol = 1e-7       # what is left of a phase is its initial amount minus what reacted (1.5e-8 measured at water factor 0.05)
        if h in ("pressure", "total mol", "volume") or h.startswith("g_"):
            tol = 5e-6       # measured solver-noise floor of the gas-phase unknowns (C10 measured the same floor between an exact in-memory copy and its original)
        worst = max(worst, rel)
        if rel > tol:
            # a phase present in one member and absent in the other: discontinuity, not a verdict
            if (fx == 0) != (fy == 0) and h.split("_")[-1] in ("Calcite", "Gypsum", "Celestite"):
                return Result(INCONCLUSIVE, reason="phase boundary")
            findings.append(("C15/%s/%s" % (tr, spec["kind"]), "%s: column %s is %.12g in the base description and %.12g (%s) after transformation '%s' (relative %.2e)" % (
                case["id"], h, fx, fy, "scaled back by the water factor %g" % wf if ext else "as reported", tr, abs(fx - fy) / sc)))
            if len(findings) > 3:
                break
    stats = {"n_columns_compared": ncmp, "worst_rel": worst}
    sample = dict(id=case["id"], kind=spec["kind"], transformation=tr, water_factor=wf, worst=worst, transformed_input=t2[-600:])
    sig = "%s|%s" % (spec["kind"], tr)
    if findings:
        k, w = findings[0]
        return Result(VIOLATED, key=k, what=w, findings=findings[1:], sigs=[sig], sample=sample, stats=stats)
    return Result(HELD, sigs=[sig], sample=sample, stats=stats)
