"""C08 - bad input is reported as errors; it never crashes or poisons the instance.

Monitor: one process per unit (ASan+UBSan build, exit/abort interposed).  A unit is self-contained:
    new; LoadDatabase(db)            must succeed
    deliver the hostile unit         RunString / RunFile / Accumulate+RunAccumulated / LoadDatabaseString / LoadDatabase(path) / file faults
    snap error + warning strings     relation: return != 0  <=>  >= 1 message recorded in the error string for that call
    LoadDatabase(db) again           must succeed (restores the fresh state, C07)
    fixed probe                      every channel digest must equal the one of a fresh instance (reference computed at start)
Events that refute the property: sanitizer report, signal, exit()/abort() reached from library code, exception escaping the
API call, broken return/ERROR relation, probe digest differing from the fresh reference, error/warning text of the probe
differing from the reference (strings must describe that call only).
Thorough tier adds a coverage-guided libFuzzer campaign (clang build) over the same self-contained unit.
"""
import glob
import hashlib
import os
import re
import shutil
import subprocess
import time

from vlib import core, gens, examples, mutate, build
from vlib.core import Result, HELD, VIOLATED, INCONCLUSIVE

PROP = "C08"
FLAVOURS = ["asan"]
RULE = ("units: (mut) 1-5 structured mutations (token/line/number/byte/truncation/duplication/keyword/option/quote/splice) of shipped examples and of generated inputs "
        "(multi-simulation chains, rich reactant states, selected-output shapes, transport columns, inverse problem, C07's dirtiers and failing inputs); (gram) grammar-shaped blocks "
        "KEYWORD [number|range] + wrong/missing options, extreme numbers, unknown names, truncated BASIC; (dbmut) mutated database text through LoadDatabaseString; "
        "(fault) nonexistent / directory / over-long paths for database, input, INCLUDE$, output, log, error, dump and selected-output files; each delivered through "
        "RunString, RunFile or AccumulateLine+RunAccumulated and followed by reload + probe.  distinct & non-trivial = distinct (normalised first ERROR message, outcome class) pairs")
ASSUME = ["a watchdog firing (60 s per unit under ASan) is inconclusive: arbitrary input may legitimately ask for unbounded work",
          "after the hostile call the harness reloads the database before anything else (the statement's precondition)",
          "ERROR lines are counted in GetErrorString with error recording on (the default)",
          "memory leaks are not judged (LeakSanitizer off): the statement speaks of crashes, invalid accesses, UB, exits and exceptions",
          "UBSan = gcc's default 'undefined' group; float-cast-overflow / float-divide-by-zero are not in it"]

PROBE = ("RATES\n pr1\n-start\n10 SAVE 1e-6*TIME\n-end\n"
         "SOLUTION 1\n temp 25\n pH 7.5\n Na 10\n Cl 10\n Ca 2\n C(4) 3\n K 1\n S(6) 1\nSELECTED_OUTPUT\n -totals Ca Na\n -molalities Na+ Cl-\n -saturation_indices Calcite Gypsum Halite\n"
         "USER_PUNCH\n -headings g1 e1 mu\n10 PUNCH GET(1), EXISTS(1), MU\nEND\n"
         "USE solution 1\nREACTION 1\n NaCl 1\n 1 mmol in 2 steps\nEQUILIBRIUM_PHASES 1\n Calcite 0 1\n Gypsum 0 0\nSAVE solution 2\nEND\n"
         "KINETICS 1\n pr1\n -formula NaCl\n -m0 1\n -steps 1000 in 2 steps\nUSE solution 1\nEND\n"
         "SOLUTION 0\n K 2\n Cl 2\nSOLUTION 1-3\n Na 1\n Cl 1\nTRANSPORT\n -cells 3\n -shifts 2\n -time_step 1000\n -dispersivities 0.1\n -diffusion_coefficient 1e-9\n -punch_frequency 1\nEND\n"
         "USE solution 1\nUSER_PRINT\n10 PRINT \"memory\", GET(1), GET(2,3), EXISTS(1), TOTAL_TIME, SIM_NO\nEND\nDUMP\n -all\nEND\n")
BASE_EXAMPLES = ["ex1", "ex2", "ex3", "ex4", "ex5", "ex6", "ex7", "ex8", "ex9", "ex10", "ex13a", "ex14", "ex16", "ex17", "ex18", "ex19", "ex20a", "ex22", "ex12", "ex11"]
NAMES = ["Na", "Cl", "Ca", "C(4)", "S(6)", "Fe(2)", "Xx", "Calcite", "Gypsum", "CO2(g)", "NoSuchPhase", "NaX", "Hfo_wOH", "H2O", "e-", "H+", "X-", "Ca+2", "O2", "[13C]", "Fe(+3)", "pr1", "zero_rate"]


# ------------------------------------------------------------------------------------------------ corpus of base texts
def base_corpus(ctx):
    """list of (name, database file name, text)"""
    out = []
    for ex in BASE_EXAMPLES:
        if ex in examples.TABLE and os.path.exists(examples.path(ctx.repo, ex)):
            out.append((ex, examples.TABLE[ex][0], examples.text(ctx.repo, ex)))
    r = ctx.rng("corpus")
    for i in range(12):
        out.append(("chain%d" % i, "database/phreeqc.dat", gens.multi_sim_input(r)))
    for i in range(8):
        prelude, text, cells, kinds = gens.rich_state(r)
        out.append(("rich%d" % i, "database/phreeqc.dat", prelude + text + "DUMP\n -all\nEND\n"))
    for i in range(6):
        n = r.randint(2, 5)
        out.append(("column%d" % i, "database/phreeqc.dat", gens.solution(r, "0-%d" % (2 * n + 1), elements=["Na", "Cl", "K", "Ca"]) + gens.exchange(r, "1-%d" % n, equil=1)
                    + gens.transport_block(r, n, kind="transport") + " -multi_d true 1e-9 0.3 0.05 1.0\n -stagnant 1 1e-6 0.3 0.1\nEND\n"))
    from props import c05, c07
    out.append(("inverse", "database/phreeqc.dat", "SELECTED_OUTPUT\n -inverse_modeling true\n" + c05.INVERSE + "END\n"))
    for fn in c07.DIRTIERS:
        try:
            out.append(("dirty_" + fn.__name__, "database/phreeqc.dat", c07.BASE_SOL + fn(r)))
        except Exception:
            pass
    for k, t in c07.FAILERS.items():
        if t is not None:
            out.append(("fail_" + k, "database/phreeqc.dat", t))
    for p in sorted(glob.glob(os.path.join(core.VERIF, "corpus", "c08", "*.pqi"))):
        t = open(p, encoding="latin-1").read()
        m = re.match(r"#database[ \t]+(\S+)", t)   # first line of a corpus file may name the database it needs
        out.append(("corpus_" + os.path.basename(p)[:-4], "database/" + (m.group(1) if m else "phreeqc.dat"), t))
    return out


def prepare(ctx):
    ctx.params["corpus"] = base_corpus(ctx)
    ctx.params["options"] = mutate.harvest_options([t for _, _, t in ctx.params["corpus"]])
    ref = {}
    for db in sorted({d for _, d, _ in ctx.params["corpus"]} | {"database/phreeqc.dat"}):
        dbp = os.path.join(ctx.repo, db)
        d = os.path.join(ctx.workroot, "ref_" + hashlib.sha256(db.encode()).hexdigest()[:8])
        os.makedirs(d, exist_ok=True)
        s = core.Script()
        s.raw("new a")
        s.raw("loaddb a " + dbp)
        _probe(s)
        run = core.run_vdrive(ctx.bin("asan"), s.bytes(), d, timeout=300, flavour="asan")
        pf = core.process_failure(run)
        sn = [r for r in core.rets(run, "snap")]
        if pf or not sn:
            ref[db] = None        # the probe itself cannot run on this database (e.g. pitzer.dat lacks a species): no digest comparison
            continue
        ref[db] = _digest(sn[-1], core.rets(run, "run")[-1].get("r"))
    ctx.params["ref"] = ref


def _probe(s):
    for sw in ("OutputStringOn", "SelectedOutputStringOn", "DumpStringOn", "LogStringOn"):
        s.raw("set a %s 1" % sw)
    s.raw("tag probe")
    s.run("a", PROBE)
    s.raw("snap a ewc")


def _digest(rec, ret):
    d = {"ret": ret}
    for ch in ("output", "log", "dump"):
        d[ch] = rec[ch]["h"]
    d["error"] = rec["error"].get("text")
    d["warning"] = rec["warning"].get("text")
    d["components"] = rec.get("components")
    d["selout"] = [(so["n"], so["rows"], so["cols"], so["th"], so["sh"]) for so in rec["selout"]]
    return d


# ------------------------------------------------------------------------------------------------ cases
def gen_cases(ctx):
    n = ctx.params.get("cases") or (3000 if ctx.tier == "quick" else 50000)
    ncorp = len(ctx.params["corpus"])
    for j, (name, _, _) in enumerate(ctx.params["corpus"]):
        if name.startswith("corpus_"):      # the kept inputs of earlier findings: always once as they are
            yield dict(id="keep_" + name[7:], kind="mut", base=j, mseed=0, deliver="run", asis=True)
    for i in range(n):
        r = ctx.rng("case", i)
        w = r.random()
        if w < 0.62:
            yield dict(id="u%06d" % i, kind="mut", base=r.randrange(ncorp), mseed=r.randrange(1 << 30), deliver=r.choice(["run", "run", "runfile", "acc"]))
        elif w < 0.82:
            yield dict(id="u%06d" % i, kind="gram", mseed=r.randrange(1 << 30), deliver=r.choice(["run", "run", "runfile", "acc"]))
        elif w < 0.9:
            yield dict(id="u%06d" % i, kind="dbmut", mseed=r.randrange(1 << 30))
        else:
            yield dict(id="u%06d" % i, kind="fault", mseed=r.randrange(1 << 30))
    if ctx.tier == "thorough" and not ctx.params.get("cases"):
        yield dict(id="fuzz", kind="fuzz")


def unit_text(ctx, case):
    r = ctx.rng("unit", case["mseed"])
    if case["kind"] == "mut":
        name, db, text = ctx.params["corpus"][case["base"]]
        if case.get("asis") or r.random() < 0.06:
            return name, db, text, ["unmutated"]
        t, names = mutate.mutate(r, text, ctx.params["options"])
        return name, db, t, names
    if case["kind"] == "gram":
        t = ""
        if r.random() < 0.6:
            t += "SOLUTION 1\n Na 1\n Cl 1\n"
        for _ in range(r.randint(1, 4)):
            t += mutate.random_block(r, ctx.params["options"], NAMES)
        if r.random() < 0.8:
            t += "END\n"
        return "grammar", "database/phreeqc.dat", t, ["grammar"]
    raise KeyError


def build_script(ctx, case):
    """returns (script bytes, database key, description, expectation dict)"""
    s = core.Script()
    r = ctx.rng("deliver", case["mseed"])
    exp = {}
    s.raw("new a")
    if case["kind"] in ("mut", "gram"):
        name, db, text, names = unit_text(ctx, case)
        dbp = os.path.join(ctx.repo, db)
        s.raw("loaddb a " + dbp)
        if case.get("asis") or ctx.rng("sinks", case["mseed"]).random() < 0.6:
            # with every sink off the engine skips printing altogether, and with it USER_PRINT, the output of every block and the punch code:
            # most units keep the string sinks on so that these paths see the hostile input too
            s.raw("set a OutputStringOn 1")
            s.raw("set a SelectedOutputStringOn 1")
        if name.startswith("ex") and name in examples.TABLE:
            for f in examples.TABLE[name][2]:
                exp.setdefault("stage", []).append(os.path.join(ctx.repo, "phreeqc3-examples", f))
        s.raw("tag unit")
        if case["deliver"] == "runfile":
            t = s.text(text)
            s.raw("writefile unit.pqi %s" % t)
            s.raw("runfile a unit.pqi")
        elif case["deliver"] == "acc":
            s.raw("acc a %s" % s.text(text))
            s.raw("runacc a")
        else:
            s.run("a", text)
        desc = "%s [%s] via %s" % (name, ",".join(names), case["deliver"])
        if case.get("asis") and re.search(r"(?m)^#expect error\b", text):
            exp["must_fail"] = True      # a kept input whose calculation cannot succeed: a return of 0 would be a silent wrong result
        exp["unit_op"] = {"runfile": "runfile", "acc": "runacc", "run": "run"}[case["deliver"]]
    elif case["kind"] == "dbmut":
        db = "database/phreeqc.dat"
        dbp = os.path.join(ctx.repo, db)
        dbname = r.choice(["phreeqc.dat", "phreeqc.dat", "pitzer.dat", "sit.dat", "iso.dat", "Amm.dat", "minimum.dat", "wateq4f.dat", "Tipping_Hurley.dat"])
        text = open(os.path.join(ctx.repo, "database", dbname), encoding="latin-1").read()
        # mutate inside a window so that the mutation lands in every part of the file over many cases
        t, names = mutate.mutate(r, text, ctx.params["options"], n=r.choice([1, 1, 2, 4]))
        s.raw("tag unit")
        s.raw("loaddbstr a %s" % s.text(t))
        desc = "database text %s [%s] via LoadDatabaseString" % (dbname, ",".join(names))
        exp["unit_op"] = "loaddbstr"
    else:
        db = "database/phreeqc.dat"
        dbp = os.path.join(ctx.repo, db)
        kind = r.choice(["db_missing", "db_dir", "db_long", "db_empty", "run_missing", "run_dir", "include_missing", "include_dir", "out_nodir", "out_isdir", "sel_nodir", "dump_nodir",
                         "log_nodir", "err_nodir", "sel_file_dir", "db_keyword_missing"])
        longname = "L" * 5000
        s.raw("tag unit")
        exp["unit_op"] = "run"
        ok_text = "SOLUTION 1\n Na 1\n Cl 1\nSELECTED_OUTPUT\n -totals Na\nKNOBS\n -logfile true\nDUMP\n -all\nEND\n"
        if kind.startswith("db_"):
            exp["unit_op"] = "loaddb"
            if kind == "db_missing":
                s.raw("loaddb a /nonexistent_dir/none.dat")
                exp["must_fail"] = True
            elif kind == "db_dir":
                s.raw("loaddb a %s" % os.path.join(ctx.repo, "database"))
                exp["must_fail"] = True
            elif kind == "db_long":
                s.raw("loaddb a %s" % longname)
                exp["must_fail"] = True
            elif kind == "db_empty":
                s.raw("writefile empty.dat %s" % s.text(""))
                s.raw("loaddb a empty.dat")
            else:
                s.raw("loaddb a " + dbp)
                s.raw("tag unit")
                s.run("a", "DATABASE /nonexistent_dir/none.dat\nSOLUTION 1\nEND\n")
                exp["unit_op"] = "run"
        else:
            s.raw("loaddb a " + dbp)
            s.raw("tag unit")
            if kind == "run_missing":
                s.raw("runfile a /nonexistent_dir/in.pqi")
                exp["unit_op"], exp["must_fail"] = "runfile", True
            elif kind == "run_dir":
                s.raw("runfile a %s" % ctx.repo)
                exp["unit_op"] = "runfile"
            elif kind == "include_missing":
                s.run("a", "SOLUTION 1\n Na 1\nINCLUDE$ /nonexistent_dir/inc.pqi\nEND\n")
                exp["must_fail"] = True
            elif kind == "include_dir":
                s.run("a", "SOLUTION 1\n Na 1\nINCLUDE$ %s\nEND\n" % ctx.repo)
            else:
                target = {"out_nodir": ("OutputFileName", "OutputFileOn"), "out_isdir": ("OutputFileName", "OutputFileOn"), "sel_nodir": ("SelectedOutputFileName", "SelectedOutputFileOn"),
                          "dump_nodir": ("DumpFileName", "DumpFileOn"), "log_nodir": ("LogFileName", "LogFileOn"), "err_nodir": ("ErrorFileName", "ErrorFileOn"),
                          "sel_file_dir": (None, "SelectedOutputFileOn")}[kind]
                path = "/nonexistent_dir/sub/x.out" if kind.endswith("nodir") else "."
                if target[0]:
                    s.raw("set a %s %s" % (target[0], path))
                s.raw("set a %s 1" % target[1])
                s.raw("tag unit")
                text = ok_text if kind != "sel_file_dir" else ok_text.replace("SELECTED_OUTPUT\n", "SELECTED_OUTPUT\n -file /nonexistent_dir/x.sel\n")
                s.run("a", text)
                # switch the sinks off again so that the probe does not write into the fault path
                s.raw("tag cleanup")
                s.raw("set a %s 0" % target[1])
        desc = "fault " + kind
    s.raw("snap a ew")
    s.raw("tag reload")
    s.raw("loaddb a " + dbp)
    s.raw("snap a ew")
    _probe(s)
    s.raw("del a")
    return s.bytes(), db, desc, exp


ERR_LINE = re.compile(r"(?m)^ERROR")


def norm_msg(t):
    first = (t.strip().split("\n") or [""])[0]
    return re.sub(r"[0-9]+(\.[0-9]+)?([eE][-+]?[0-9]+)?", "#", first)[:70]


def run_case(ctx, case):
    if case["kind"] == "fuzz":
        return run_fuzz(ctx, case)
    cwd = ctx.scratch(case["id"])
    script, db, desc, exp = build_script(ctx, case)
    for f in exp.get("stage", []):
        shutil.copy(f, cwd)
    run = core.run_vdrive(ctx.bin("asan"), script, cwd, timeout=60, flavour="asan")
    sample = dict(id=case["id"], unit=desc)
    replay = {"case": case, "unit": desc}
    pf = core.process_failure(run)
    lc = run["last_call"] or {}
    stage = lc.get("tag", "?")
    if pf:
        if pf[0] == "timeout":
            return Result(INCONCLUSIVE, reason="watchdog (unit may ask for unbounded work)")
        if pf[0] == "harness":
            return Result(INCONCLUSIVE, reason="harness: " + (pf[2] or "")[:120])
        return Result(VIOLATED, key="C08/%s" % pf[1], what="%s during '%s' of unit: %s\n%s" % (pf[0], stage, desc, pf[2][:3500]), replay=replay, sample=sample,
                      sigs=["crash|" + str(pf[1])])
    rets = core.rets(run)
    findings = []
    exc = [r for r in rets if "exc" in r]
    if exc:
        findings.append(("C08/exception-escapes/%s" % exc[0].get("op"), "exception %r escaped from %s (stage %s) for unit: %s" % (exc[0]["exc"], exc[0].get("op"), exc[0].get("tag"), desc)))
    # the hostile call and its error relation
    unit_rets = [r for r in rets if r.get("tag") == "unit" and r.get("op") == exp["unit_op"]]
    snaps = [r for r in rets if r.get("op") == "snap"]
    outcome = "?"
    firstmsg = ""
    if unit_rets and snaps and "exc" not in unit_rets[-1]:
        ur = unit_rets[-1].get("r")
        et = snaps[0]["error"].get("text", "")
        # messages recorded for the call: anything in the error string (a few engine messages, e.g. for a missing INCLUDE$ file,
        # go through the error channel without the literal 'ERROR:' prefix)
        nerr = len(ERR_LINE.findall(et)) or (1 if et.strip() else 0)
        firstmsg = norm_msg(et) if et.strip() else ""
        outcome = "fail" if ur else "ok"
        if isinstance(ur, int):
            if (ur != 0) != (nerr > 0):
                findings.append(("C08/return-vs-errors/%s" % ("nonzero-without-ERROR" if ur else "zero-with-ERROR"),
                                 "%s returned %d but %d error message(s) were recorded: %r; unit: %s" % (exp["unit_op"], ur, nerr, et[:300], desc)))
            if exp.get("must_fail") and ur == 0:
                findings.append(("C08/fault-not-reported", "%s returned 0 for %s" % (exp["unit_op"], desc)))
    # reload
    rl = [r for r in rets if r.get("tag") == "reload" and r.get("op") == "loaddb"]
    if rl and "exc" not in rl[0]:
        if rl[0].get("r") != 0:
            et = snaps[1]["error"].get("text", "") if len(snaps) > 1 else ""
            findings.append(("C08/reload-fails", "LoadDatabase after the unit returned %r: %r; unit: %s" % (rl[0].get("r"), et[:300], desc)))
        elif len(snaps) > 1 and snaps[1]["error"].get("text", ""):
            findings.append(("C08/stale-error-text/reload", "error string after a successful LoadDatabase is not empty: %r; unit: %s" % (snaps[1]["error"]["text"][:200], desc)))
    # probe vs fresh reference
    ref = ctx.params["ref"].get(db)
    pr = [r for r in rets if r.get("tag") == "probe" and r.get("op") == "run"]
    ps = [r for r in rets if r.get("tag") == "probe" and r.get("op") == "snap"]
    if ref and pr and ps and rl and rl[0].get("r") == 0:
        d = _digest(ps[-1], pr[-1].get("r"))
        diff = [k for k in ref if ref[k] != d.get(k)]
        if diff:
            k = diff[0]
            findings.append(("C08/poisoned/%s" % k, "after unit + successful reload the fixed probe differs from a fresh instance in %s: %r vs fresh %r; unit: %s" % (
                diff, str(d.get(k))[:200], str(ref[k])[:200], desc)))
    sig = "%s|%s|%s" % (case["kind"], outcome, firstmsg)
    stats = {"n_units_failing": 1 if outcome == "fail" else 0, "n_units_ok": 1 if outcome == "ok" else 0}
    if findings:
        k, w = findings[0]
        return Result(VIOLATED, key=k, what=w, findings=findings[1:], sigs=[sig], sample=sample, stats=stats, replay=replay)
    return Result(HELD, sigs=[sig], sample=sample, stats=stats)


# ------------------------------------------------------------------------------------------------ libFuzzer campaign (thorough)
def run_fuzz(ctx, case):
    try:
        b = build.ensure("fuzz", ("vfuzz",))
    except build.BuildError as e:
        return Result(INCONCLUSIVE, reason="fuzz build failed: " + str(e)[:200])
    exe = b["bin"]["vfuzz"]
    cwd = ctx.scratch("fuzz")
    corp = os.path.join(cwd, "corpus")
    art = os.path.join(cwd, "artifacts")
    os.makedirs(corp)
    os.makedirs(art)
    r = ctx.rng("fuzzcorpus")
    for i, (name, db, text) in enumerate(ctx.params["corpus"]):
        if db.endswith("phreeqc.dat") and len(text) < 8000:
            with open(os.path.join(corp, "b%03d" % i), "wb") as f:
                f.write(text.encode("latin-1", "replace"))
    for i in range(200):
        with open(os.path.join(corp, "g%03d" % i), "wb") as f:
            f.write(mutate.random_block(r, ctx.params["options"], NAMES).encode("latin-1", "replace"))
    runs = int(os.environ.get("VERIF_FUZZ_RUNS", "4000"))      # per job; 16 jobs
    env = dict(os.environ)
    env.update(core.SAN_ENV)
    env["VFUZZ_DB"] = os.path.join(ctx.repo, "database", "phreeqc.dat")
    env["ASAN_OPTIONS"] = "abort_on_error=1:detect_leaks=0:allocator_may_return_null=1:symbolize=1:malloc_context_size=12:quarantine_size_mb=8"
    t0 = time.time()
    p = subprocess.run([exe, corp, "-jobs=16", "-workers=16", "-runs=%d" % runs, "-seed=%d" % ctx.seed, "-timeout=25", "-max_len=6000", "-rss_limit_mb=3000",
                        "-artifact_prefix=" + art + "/", "-print_final_stats=1"], cwd=cwd, env=env, stdin=subprocess.DEVNULL, stdout=subprocess.PIPE, stderr=subprocess.STDOUT,
                       timeout=6 * 3600)
    logs = "".join(open(f, errors="replace").read() for f in sorted(glob.glob(os.path.join(cwd, "fuzz-*.log"))))
    execs = sum(int(x) for x in re.findall(r"stat::number_of_executed_units:\s*(\d+)", logs))
    findings = []
    arts = sorted(glob.glob(os.path.join(art, "*")))
    keep = os.path.join(core.WORK, "replay")
    os.makedirs(keep, exist_ok=True)
    for a in arts[:40]:
        kind = os.path.basename(a).split("-")[0]
        if kind in ("timeout", "slow"):
            continue
        # one process per artifact with the stand-alone replayer to get a symbolised report and a key
        q = subprocess.run([exe, a], cwd=cwd, env=env, stdin=subprocess.DEVNULL, stdout=subprocess.PIPE, stderr=subprocess.PIPE, timeout=300)
        err = q.stderr.decode("latin-1")
        fs = core.sanitizer_findings(err)
        m = re.search(r"VFUZZ-VIOLATION (\S+) (.*)", err)
        dst = os.path.join(keep, "C08-fuzz-" + os.path.basename(a))
        shutil.copy(a, dst)
        if fs:
            findings.append(("C08/" + fs[0][0], "libFuzzer artifact %s:\n%s" % (dst, fs[0][1][:3000])))
        elif m:
            findings.append(("C08/" + m.group(1), "libFuzzer artifact %s: %s" % (dst, m.group(2)[:500])))
        elif q.returncode != 0:
            findings.append(("C08/fuzz-artifact/%s" % kind, "libFuzzer artifact %s ends the replayer with status %s: %s" % (dst, q.returncode, err[-1500:])))
    stats = {"n_fuzz_units": execs, "n_fuzz_artifacts": len(arts), "fuzz_wall_s": round(time.time() - t0)}
    sample = dict(id="fuzz", units=execs, artifacts=len(arts))
    if findings:
        k, w = findings[0]
        return Result(VIOLATED, key=k, what=w, findings=findings[1:], sigs=["fuzz|campaign"], sample=sample, stats=stats)
    if execs < 1000:
        return Result(INCONCLUSIVE, reason="fuzzer executed only %d units: %s" % (execs, logs[-300:]))
    return Result(HELD, sigs=["fuzz|campaign"], sample=sample, stats=stats)
