"""C02 - closed-system conservation of elements and charge in reaction steps.

Monitor: seeded cells (solution or MIX + any subset of REACTION, EQUILIBRIUM_PHASES, EXCHANGE, SURFACE with every
electrostatic option, GAS_PHASE fixed P / fixed V, SOLID_SOLUTIONS, KINETICS) are reacted in chains of 1-4 steps
(USE ... SAVE to new numbers, or RUN_CELLS in place); DUMP -all is recorded before and after every step.
Oracle (Python, independent): the RAW blocks are read by a small parser; the inventory of every element (incl. H, O) and of
charge is summed over solution (totals, total_h, total_o, cb), exchangers, surfaces incl. diffuse-layer totals, gas components,
pure phases, solid-solution components and kinetic reactants (amount x formula, formulas from the database text).  For every
step: inventory(after, saved numbers) - inventory(before, used numbers) - (REACTION stoichiometry x amount added in the step)
= 0 within 1e-6 of the element's inventory; no amount is negative.
"""
import os
import re

from vlib import core, gens, dbparse
from vlib.core import Result, HELD, VIOLATED, INCONCLUSIVE
from props import c01, c14

PROP = "C02"
FLAVOURS = ["opt"]
RULE = ("cases: seeded cells of solution (or MIX of two solutions) + random subset of 7 reactant kinds, chained over 1-4 steps by USE/SAVE to new numbers or RUN_CELLS; REACTION with 1-3 neutral "
        "reactants, single amount / 'in k steps' / step list, incremental or cumulative. distinct & non-trivial = distinct (set of reactant kinds, step mode) with at least one element inventory "
        "changing by more than 1e-9 mol in the step")
ASSUME = ["only steps of runs that report no error are judged", "kinetic reactants are updated in place (there is no SAVE kinetics): their 'before' amount is read from the dump preceding the step",
          "charge: solution -cb + exchange component -charge_balance + per surface the -charge_component balance when a diffuse layer is explicit (the counter charge is in the layer), else the -component balances",
          "RAW text carries 14 significant digits, two orders below the 1e-6 tolerance", "formulas of phases and gases come from the database text (vlib/dbparse.py)"]

DUMP = "DUMP\n -all\nEND\n"
REACTANTS = {"NaCl": {"Na": 1, "Cl": 1}, "HCl": {"H": 1, "Cl": 1}, "NaOH": {"Na": 1, "O": 1, "H": 1}, "CaCl2": {"Ca": 1, "Cl": 2}, "KCl": {"K": 1, "Cl": 1}, "MgSO4": {"Mg": 1, "S": 1, "O": 4},
             "Na2SO4": {"Na": 2, "S": 1, "O": 4}, "CO2": {"C": 1, "O": 2}, "NaHCO3": {"Na": 1, "H": 1, "C": 1, "O": 3}, "CaSO4": {"Ca": 1, "S": 1, "O": 4}, "H2O": {"H": 2, "O": 1},
             "KNO3": {"K": 1, "N": 1, "O": 3}, "SrCl2": {"Sr": 1, "Cl": 2}}
SWAPS = {"Sr": {"Sr": 1}, "Ca": {"Ca": 1}}      # single elements, used with coefficients -1 / +1 (see build)
KSAV = ["exchange", "surface", "equilibrium_phases", "gas_phase", "solid_solutions"]
USE_WORD = {"solid_solutions": "solid_solution"}


def gen_cases(ctx):
    n = ctx.params.get("cases") or (300 if ctx.tier == "quick" else 6000)
    for i in range(n):
        yield dict(id="c%05d" % i, i=i)


def add(d, k, v):
    d[k] = d.get(k, 0.0) + v


def opt_blocks(lines, start_indent=None):
    """splits body lines into [(option token, rest, sublines)] by indentation of '-option' lines at the top level"""
    out = []
    for ln in lines:
        st = ln.strip()
        if st.startswith("#") or not st:
            continue
        ind = len(ln) - len(ln.lstrip())
        out.append((ind, st))
    return out


def inventory(db, kind, lines):
    """element -> moles, plus key '_charge', plus list of (what, amount) for the non-negativity check"""
    inv, amounts = {}, []
    items = opt_blocks(lines)
    if kind == "solution":
        sect = None
        for ind, st in items:
            w = st.split()
            if w[0].startswith("-"):
                sect = w[0]
                if sect == "-total_h":
                    add(inv, "H", float(w[1]))
                elif sect == "-total_o":
                    add(inv, "O", float(w[1]))
                elif sect == "-cb":
                    add(inv, "_charge", float(w[1]))
                continue
            if sect == "-totals" and len(w) >= 2:
                base = w[0].split("(")[0]
                if base in ("H", "O"):
                    continue        # H(0), O(0) are already inside total_h / total_o
                add(inv, base, float(w[1]))
        return inv, amounts
    if kind in ("exchange", "surface"):
        sect, comp = None, None
        explicit_dl = False
        comp_cb, charge_cb = 0.0, 0.0
        for ind, st in items:
            w = st.split()
            if w[0] == "-dl_type":
                explicit_dl = w[1] != "0"
            if w[0] in ("-component", "-charge_component"):
                comp = w[0]
                sect = None
                continue
            if w[0].startswith("-"):
                sect = w[0]
                if sect == "-charge_balance" and len(w) > 1:
                    if comp == "-charge_component":
                        charge_cb += float(w[1])
                    else:
                        comp_cb += float(w[1])
                continue
            if sect in ("-totals", "-diffuse_layer_totals") and len(w) >= 2 and comp is not None:
                if not (w[0][0].isupper()):
                    continue
                add(inv, w[0], float(w[1]))
        add(inv, "_charge", charge_cb if (kind == "surface" and explicit_dl) else comp_cb)
        for k in list(inv):
            if k == "X" or k.startswith("Hfo"):
                inv.pop(k)
        return inv, amounts
    if kind in ("equilibrium_phases", "gas_phase", "solid_solutions"):
        name = None
        comps = []          # [name, moles, alternative formula]
        for ind, st in items:
            w = st.split()
            if w[0] == "-component" and len(w) > 1:
                name = w[1]
                if kind == "equilibrium_phases":
                    comps.append([name, None, None])
            elif w[0] == "-add_formula" and kind == "equilibrium_phases" and comps and len(w) > 1:
                comps[-1][2] = w[1]
            elif w[0] == "-moles" and name is not None and len(w) > 1:
                if kind == "equilibrium_phases":
                    if comps[-1][1] is None:
                        comps[-1][1] = float(w[1])
                    continue
                comps.append([name, float(w[1]), None])
                name = None if kind != "solid_solutions" else name
        for name, n, alt in comps:
            if n is None:
                continue
            amounts.append(("%s %s" % (kind, name), n))
            if alt:
                formula = alt          # the amount counts moles of the alternative reagent
            else:
                ph = db.phases.get(name)
                if ph is None or not ph.formula:
                    raise KeyError("phase %s not in database text" % name)
                formula = dbparse.charge_of(ph.formula)[0]
            for e, c in dbparse.parse_formula(formula).items():
                add(inv, e, n * c)
        return inv, amounts
    if kind == "kinetics":
        m, coefs, sect = None, {}, None
        def flush():
            if m is not None:
                amounts.append(("kinetics", m))
                for fm, c in coefs.items():
                    ph = db.phases.get(fm)
                    comp = dbparse.parse_formula(dbparse.charge_of(ph.formula)[0]) if ph is not None and ph.formula else dbparse.parse_formula(fm)
                    for e, cc in comp.items():
                        add(inv, e, m * c * cc)
        for ind, st in items:
            w = st.split()
            if w[0] == "-component":
                flush()
                m, coefs, sect = None, {}, None
                continue
            if w[0].startswith("-"):
                sect = w[0]
                if sect == "-m" and len(w) > 1:
                    m = float(w[1])
                continue
            if sect == "-namecoef" and len(w) >= 2:
                coefs[w[0]] = float(w[1])
        flush()
        return inv, amounts
    return inv, amounts


def total_inventory(db, dump, keys):
    tot, amounts = {}, []
    for k in keys:
        if k not in dump:
            continue
        inv, am = inventory(db, k[0], dump[k])
        for e, v in inv.items():
            add(tot, e, v)
        amounts += [("%s %d: %s" % (k[0], k[1], a), v) for a, v in am]
    return tot, amounts


def build(ctx, case):
    r = ctx.rng("cell", case["i"])
    f = gens.fmt
    gens.REDOX_FREE = False
    kinds = set(r.sample(["eq", "exch", "surf", "gas", "ss", "kin"], r.randint(0, 4)))
    t = gens.PRELUDE.replace("1e-10", "1e-12")
    t += gens.solution(r, 1, charge="pH", temp=r.choice([25, 25, 15, 40]))
    mixed = r.random() < 0.25
    if mixed:
        t += gens.solution(r, 9, charge="pH", temp=25)
    fix = None
    if "eq" in kinds:
        eqt = gens.eq_phases(r, 1, nmax=4)
        if r.random() < 0.35:
            # a phase whose target is reached by adding an alternative reagent (manual: 'alternative formula'); the reagent is changed between steps below
            acid = r.random() < 0.5
            fix = dict(reagents=["HCl", "HNO3", "H2SO4"] if acid else ["NaOH", "KOH"], ph=round(r.uniform(3, 5) if acid else r.uniform(9, 10.5), 1), others=eqt.split("\n")[1:-1])
            t = "PHASES\nFix_H+\n H+ = H+\n log_k 0\n" + t
            eqt += " Fix_H+ %s %s 10\n" % (f(-fix["ph"]), r.choice(fix["reagents"]))
        t += eqt
    if "exch" in kinds:
        t += gens.exchange(r, 1, equil=1 if r.random() < 0.7 else None)
    cdm = False
    if "surf" in kinds:
        st_ = gens.surface_full(r, 1, 1)
        cdm = "-cd_music" in st_
        t += st_
    if "gas" in kinds:
        t += gens.gas_phase(r, 1)
    if "ss" in kinds:
        t += gens.solid_solution(r, 1)
    if "kin" in kinds:
        # one kinetic time step: with several, the REACTION amount is applied once per kinetic step
        t += re.sub(r"in \d+ steps", "in 1 steps", gens.kinetics(r, 1))
    t += "END\n"
    # bring every reactant through one calculation so that the dump preceding the first judged step holds calculated amounts
    # (a freshly defined GAS_PHASE or -equilibrate'd assemblage is (re)initialised from its defining data at first use)
    t += "RUN_CELLS\n -cells 1\n -time_step 10\nEND\n"
    if mixed:
        t += "RUN_CELLS\n -cells 9\nEND\n"
    steps = []
    nsteps = r.randint(1, 4)
    cur = 1
    have_kind = {"exchange": "exch" in kinds, "surface": "surf" in kinds, "equilibrium_phases": "eq" in kinds, "gas_phase": "gas" in kinds, "solid_solutions": "ss" in kinds}
    for k in range(nsteps):
        mode = r.choice(["usesave", "usesave", "runcells"]) if not (mixed and k == 0) else "usesave"
        rx = r.sample(sorted(REACTANTS), r.randint(1, 3))
        coefs = [r.choice([1, 1, 0.5, 2]) for _ in rx]
        swap = "ss" in kinds and r.random() < 0.3
        if swap:
            # a reaction that takes strontium out and puts calcium in (or the reverse): more than the water holds, so that the solid solution has to supply it
            rx, coefs = (["Sr", "Ca"], [-1, 1]) if r.random() < 0.6 else (["Ca", "Sr"], [-1, 1])
        incr = r.random() < 0.4
        style = r.choice(["single", "insteps", "list"]) if mode == "usesave" else r.choice(["single", "single", "insteps", "list"])      # RUN_CELLS walks through the steps too and saves the last one
        if swap:
            style = "single"
        if style == "single":
            amt = gens.loguni(r, 1e-5, 5e-3) if not swap else gens.loguni(r, 2e-5, 8e-5)
            stp, total = "%s mol" % f(amt), float(f(amt))
        elif style == "insteps":
            amt = gens.loguni(r, 1e-5, 5e-3)
            stp, total = "%s mol in %d steps" % (f(amt), r.randint(2, 4)), float(f(amt))
        else:
            vals = sorted(float(f(gens.loguni(r, 1e-5, 5e-3))) for _ in range(r.randint(2, 3)))
            stp = " ".join(f(v) for v in vals) + " mol"
            total = sum(vals) if incr else vals[-1]
        added = {}
        for name, c in zip(rx, coefs):
            for e, n in (REACTANTS.get(name) or SWAPS[name]).items():
                add(added, e, n * c * total)
        rtxt = "REACTION %d\n" % cur + "".join(" %s %s\n" % (n, f(c)) for n, c in zip(rx, coefs)) + " " + stp + "\n"
        txt = "INCREMENTAL_REACTIONS %s\n" % ("true" if incr else "false")
        used = [("solution", cur)] + [(kd, cur) for kd, h in have_kind.items() if h] + ([("kinetics", 1)] if "kin" in kinds and cur == 1 else [])
        mixf = None
        if mode == "runcells":
            txt += rtxt + "RUN_CELLS\n -cells %d\n" % cur
            if "kin" in kinds and cur == 1:
                txt += " -time_step 100\n"
            txt += "END\n"
            saved = list(used)
            nxt = cur
        else:
            nxt = cur + 1
            if mixed and k == 0:
                mixf = (round(r.uniform(0.2, 0.9), 2), round(r.uniform(0.1, 0.8), 2))
                txt += "MIX 1\n 1 %s\n 9 %s\n" % (f(mixf[0]), f(mixf[1]))
            else:
                txt += "USE solution %d\n" % cur
            for kd, h in have_kind.items():
                if h:
                    txt += "USE %s %d\n" % (USE_WORD.get(kd, kd), cur)
            if "kin" in kinds and cur == 1:
                txt += "USE kinetics 1\n"
            txt += rtxt
            txt += "SAVE solution %d\n" % nxt
            for kd, h in have_kind.items():
                if h:
                    txt += "SAVE %s %d\n" % (USE_WORD.get(kd, kd), nxt)
            txt += "END\n"
            saved = [("solution", nxt)] + [(kd, nxt) for kd, h in have_kind.items() if h] + ([("kinetics", 1)] if "kin" in kinds and cur == 1 else [])
        pre = None
        if fix and k > 0 and r.random() < 0.7:
            # same phases, another reagent (and sometimes another target): only the alternative formula tells the two models apart
            ph = fix["ph"] if r.random() < 0.5 else round(fix["ph"] + r.uniform(-0.5, 0.5), 1)
            pre = "EQUILIBRIUM_PHASES %d\n" % cur + "".join(l + "\n" for l in fix["others"]) + " Fix_H+ %s %s 10\nEND\n" % (f(-ph), r.choice(fix["reagents"]))
        steps.append(dict(text=txt, used=used, saved=saved, added=added, mode=mode, mixf=mixf, style=style, incr=incr, pre=pre))
        cur = nxt
    return t, steps, sorted(kinds) + (["mix"] if mixed else []) + (["cd_music"] if cdm else []) + (["alt-reagent"] if fix else [])


def run_case(ctx, case):
    db = c01.get_db(ctx, "phreeqc.dat")
    t0, steps, kinds = build(ctx, case)
    cwd = ctx.scratch(case["id"])
    s = core.Script()
    s.raw("new a")
    s.raw("loaddb a " + os.path.join(ctx.db, "phreeqc.dat"))
    s.raw("set a DumpStringOn 1")
    s.raw("tag def")
    s.run("a", t0)
    s.raw("snap a e")
    s.run("a", DUMP)
    s.raw("snap a d")
    for i, st in enumerate(steps):
        if st.get("pre"):
            s.raw("tag p%d" % i)
            s.run("a", st["pre"])
            s.raw("snap a ew")
            s.run("a", DUMP)
            s.raw("snap a d")
        s.raw("tag s%d" % i)
        s.run("a", st["text"])
        s.raw("snap a ew")
        s.run("a", DUMP)
        s.raw("snap a d")
    run = core.run_vdrive(ctx.bin("opt"), s.bytes(), cwd, timeout=60)
    if core.process_failure(run):
        return Result(INCONCLUSIVE, reason="process failure")
    rets = core.rets(run)
    by = {}
    for rec in rets:
        by.setdefault(rec.get("tag"), []).append(rec)

    def warned(tag):
        sn = [x for x in by.get(tag, []) if x["op"] == "snap"]
        return bool(sn) and "switching to numerical derivatives" in sn[0].get("warning", {}).get("text", "")

    def stage(tag):
        rs = [x for x in by.get(tag, []) if x["op"] == "run"]
        sn = [x for x in by.get(tag, []) if x["op"] == "snap"]
        if len(rs) < 2 or len(sn) < 2:
            return None, None, "incomplete"
        if rs[0].get("r") != 0:
            return None, None, sn[0]["error"].get("text", "").strip().split("\n")[0]
        return c14.parse_dump(sn[1]["dump"].get("text", "")), sn[0], None
    before, _, err = stage("def")
    if err:
        return Result(INCONCLUSIVE, reason="definition fails: " + " ".join(err.split())[:50])
    findings, sigs = [], set()
    nchk, worst = 0, 0.0
    judged = 0
    for i, st in enumerate(steps):
        if st.get("pre"):
            before, _, err = stage("p%d" % i)
            if err:
                break
        after, _, err = stage("s%d" % i)
        if err:
            break
        try:
            if st["mixf"]:
                inv_b, _ = total_inventory(db, before, [k for k in st["used"] if k[0] != "solution"])
                for (num, fr) in ((1, st["mixf"][0]), (9, st["mixf"][1])):
                    si, _ = inventory(db, "solution", before[("solution", num)])
                    for e, v in si.items():
                        add(inv_b, e, fr * v)
            else:
                inv_b, _ = total_inventory(db, before, st["used"])
            inv_a, amounts = total_inventory(db, after, st["saved"])
        except (KeyError, ValueError) as e:
            return Result(INCONCLUSIVE, reason="inventory not computable: %s" % str(e)[:60])
        judged += 1
        changed = False
        # the solver closes every balance relative to the size of the system it iterates on: a trace element (1e-9 mol of Fe next to 10 mol of minerals)
        # cannot be expected to close to 1e-6 of its own inventory, only to about 1e-12 of the largest one
        big = max([abs(v) for k_, v in inv_b.items() if k_ not in ("H", "O", "_charge")] + [0.0])
        for e in sorted(set(inv_a) | set(inv_b) | set(st["added"])):
            a, b, ad = inv_a.get(e, 0.0), inv_b.get(e, 0.0), st["added"].get(e, 0.0)
            resid = a - b - ad
            if e == "_charge":
                scale = sum(abs(v) for k, v in inv_a.items() if k not in ("H", "O", "_charge")) + 1e-9
            else:
                scale = max(abs(a), abs(b), 1e-12)
            nchk += 1
            worst = max(worst, abs(resid) / scale)
            if abs(ad) > 1e-9:
                changed = True
            if abs(resid) > 1e-6 * scale + 1e-12 * big:
                findings.append(("C02/balance/%s/%s%s" % ("charge" if e == "_charge" else ("H-O" if e in ("H", "O") else "element"), st["mode"], "/cd_music" if "cd_music" in kinds else ("/numerical-derivatives" if warned("s%d" % i) else "")),
                                 "%s step %d (%s, kinds %s, reaction %s %s): %s after = %.12g, before = %.12g, added = %.12g, residual %.3e (%.2e of inventory)" % (
                                     case["id"], i, st["mode"], kinds, st["style"], "incremental" if st["incr"] else "cumulative", "charge" if e == "_charge" else e, a, b, ad, resid, abs(resid) / scale)))
        for what, v in amounts:
            nchk += 1
            if v < 0:
                findings.append(("C02/negative-amount", "%s step %d: %s = %.6e" % (case["id"], i, what, v)))
        if changed:
            sigs.add("%s|%s|%s%s" % ("+".join(kinds) or "solution", st["mode"], st["style"], "|incr" if st["incr"] else ""))
        before = after
        if len(findings) > 5:
            break
    stats = {"n_checks": nchk, "worst_rel_residual": worst, "n_steps_judged": judged}
    sample = dict(id=case["id"], kinds=kinds, steps=[(st["mode"], st["style"], st["incr"]) for st in steps], judged=judged, worst=worst)
    if findings:
        k, w = findings[0]
        return Result(VIOLATED, key=k, what=w, findings=findings[1:], sigs=sigs, sample=sample, stats=stats)
    if judged == 0:
        return Result(INCONCLUSIVE, reason="no step completed: " + " ".join((err or "").split())[:50])
    return Result(HELD, sigs=sigs, sample=sample, stats=stats)
