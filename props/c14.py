"""C14 - numbered reactants behave as a keyed store under COPY/DELETE/SAVE/USE/MODIFY.

Monitor: one vdrive process per history.  Two instances receive the same generated history of single-operation simulations
(definitions with number ranges, batch reactions with USE + SAVE, COPY single/range/cell, DELETE lists/ranges/cell/all, *_MODIFY,
SOLUTION_MIX, plain re-speciation USE+SAVE, mix+SAVE, RUN_CELLS); in the second instance every RUN_CELLS is replaced by the explicit
USE of every reactant numbered n followed by SAVE to n.  After every operation DUMP -all, the component list and the error string
are recorded.  Oracle: a reference map (kind, number) -> content token kept by the generator.  Checked after every step:
keys of the dump == keys of the map; entries whose token did not change are textually unchanged; entries sharing a token are
textually identical (modulo number/description); a *_MODIFY changed only lines of the named option; re-saved / mixed solutions carry
the totals the current content prescribes; the RUN_CELLS instance and the explicit instance agree (1e-8); the component list
contains every element of every defined reactant.
"""
import os
import re

from vlib import core, gens
from vlib.core import Result, HELD, VIOLATED, INCONCLUSIVE

PROP = "C14"
FLAVOURS = ["opt", "asan"]
RULE = ("cases: seeded histories of 20 (quick) / 60 (thorough) single-operation simulations over 11 entity kinds with numbers 1..8 (so that redefinition, "
        "overlap and absence are frequent); non-trivial = an operation applied to a non-empty store whose effect was compared with the reference map; "
        "distinct = (operation, entity kind, range shape) triples")
ASSUME = ["every operation is its own simulation (END) so that the engine's fixed order definitions -> calculation -> SAVE -> COPY -> DUMP -> DELETE inside one simulation does not matter",
          "negative user numbers are not generated: DUMP does not list them, so the store is not observable there",
          "kinetic reactants that take part in a batch reaction may be updated in place (no SAVE kinetics exists): their content is not required to stay unchanged",
          "the history stops at the first simulation that reports an error (e.g. non-convergence); steps before it are judged",
          "RUN_CELLS equivalence uses single-step temperature/pressure entries and KINETICS -steps equal to the RUN_CELLS time step (REACTION entries may have several steps)",
          "one case in eight runs under ASan+UBSan"]

KINDS = ["solution", "exchange", "surface", "equilibrium_phases", "gas_phase", "solid_solutions", "kinetics", "reaction", "mix", "reaction_temperature", "reaction_pressure"]
SAVABLE = ["exchange", "surface", "equilibrium_phases", "gas_phase", "solid_solutions"]
COPY_WORD = {"solid_solutions": "solid_solution"}
DELETE_WORD = {"solid_solutions": "solid_solution", "reaction_temperature": "temperature", "reaction_pressure": "pressure"}
USE_WORD = {"solid_solutions": "solid_solution"}
TSTEP = 100
PRELUDE = ("RATES\n zero_rate\n-start\n10 moles = PARM(1) * TIME\n20 IF (moles > M) THEN moles = M\n30 SAVE moles\n-end\n"
           "KNOBS\n -convergence_tolerance 1e-10\n -iterations 300\nEND\n")
DUMP = "DUMP\n -all\nEND\n"
MINERALS = {"Calcite": ["Ca", "C"], "Gypsum": ["Ca", "S"], "Quartz": ["Si"], "Barite": ["Ba", "S"], "Fluorite": ["Ca", "F"], "Celestite": ["Sr", "S"],
            "Strontianite": ["Sr", "C"], "CO2(g)": ["C"], "N2(g)": ["N"]}
FORMULA_ELEMS = {"NaCl": ["Na", "Cl"], "KCl": ["K", "Cl"], "CaCl2": ["Ca", "Cl"], "MgSO4": ["Mg", "S"], "KBr": ["K", "Br"], "NaNO3": ["Na", "N"], "LiCl": ["Li", "Cl"]}


def rr(rng, lo=1, hi=8):
    """a number range 'a' or 'a-b'"""
    a = rng.randint(lo, hi)
    if rng.random() < 0.35:
        b = min(hi, a + rng.randint(1, 2))
        return a, b
    return a, a


def rtxt(a, b):
    return "%d-%d" % (a, b) if b > a else "%d" % a


def shape(a, b):
    return "single" if a == b else "range"


class Hist:
    def __init__(self, rng):
        self.rng = rng
        self.tok = 0
        self.m = {}          # (kind, n) -> token
        self.steps = []      # dict(text, text_b, op, model(after), maychange:set, modify:(key, allowed), totals_check, sig)
        self.any_runcells = False

    def new(self):
        self.tok += 1
        return self.tok

    def have(self, kind):
        return sorted(n for (k, n) in self.m if k == kind)

    def add(self, text, op, sig, text_b=None, maychange=(), modify=None, totals=None, cmp_ab=False, fresh=()):
        self.steps.append(dict(text=text, text_b=text_b if text_b is not None else text, op=op, model=dict(self.m), maychange=set(maychange),
                               modify=modify, totals=totals, sig=sig, cmp_ab=cmp_ab, fresh=set(fresh)))

    # ---------------------------------------------------------------- content generators
    def body(self, kind):
        r = self.rng
        f = gens.fmt
        if kind == "solution":
            els = r.sample(["Na", "K", "Ca", "Mg", "Li"], r.randint(1, 3))
            t = " temp %s\n pH 7 charge\n" % r.choice([25, 25, 15, 40])
            for e in els:
                t += " %s %s\n" % (e, f(gens.loguni(r, 0.1, 20)))
            t += " Cl %s\n" % f(gens.loguni(r, 0.1, 20))
            if r.random() < 0.4:
                t += " C(4) %s\n" % f(gens.loguni(r, 0.1, 5))
            if r.random() < 0.3:
                t += " S(6) %s\n" % f(gens.loguni(r, 0.1, 5))
            if r.random() < 0.3:
                t += " -water %s\n" % f(r.choice([0.5, 2, 1.5]))
            return t
        if kind == "exchange":
            return "".join(" %s %s\n" % (sp, f(gens.loguni(r, 1e-3, 0.2))) for sp in r.sample(["NaX", "KX", "CaX2", "MgX2"], r.randint(1, 3)))
        if kind == "surface":
            t = " Hfo_wOH %s %s %s\n" % (f(gens.loguni(r, 2e-4, 3e-3)), r.choice([600, 100]), f(gens.loguni(r, 0.1, 2)))
            return t + r.choice(["", " -no_edl\n", " -no_edl\n"])
        if kind == "equilibrium_phases":
            return "".join(" %s 0 %s\n" % (p, f(r.choice([0, 0.01, 0.1, 1]))) for p in r.sample(["Calcite", "Gypsum", "Quartz", "Barite", "Fluorite", "Celestite"], r.randint(1, 3)))
        if kind == "gas_phase":
            t = r.choice([" -fixed_pressure\n -pressure 1\n -volume %s\n" % f(gens.loguni(r, 0.1, 2)), " -fixed_volume\n -volume %s\n" % f(gens.loguni(r, 0.1, 2))])
            for g in r.sample(["CO2(g)", "N2(g)"], r.randint(1, 2)):
                t += " %s %s\n" % (g, f(gens.loguni(r, 1e-3, 0.3)))
            return t
        if kind == "solid_solutions":
            return " CaSrCO3\n -comp Calcite %s\n -comp Strontianite %s\n" % (f(gens.loguni(r, 1e-3, 0.1)), f(gens.loguni(r, 1e-4, 0.01)))
        if kind == "kinetics":
            fa = r.choice(sorted(FORMULA_ELEMS))
            t = " zero_rate\n -formula %s 1\n -m0 %s\n -parms %s\n" % (fa, f(gens.loguni(r, 1e-3, 1e-2)), f(gens.loguni(r, 1e-9, 1e-7)))
            if r.random() < 0.4:
                # a second kinetic reactant of another composition in the same entry (either may hold the only source of an element)
                fb = r.choice([x for x in sorted(FORMULA_ELEMS) if x != fa])
                sec = " first_rate\n -formula %s 1\n -m0 %s\n -parms %s\n" % (fb, f(gens.loguni(r, 1e-3, 1e-2)), f(gens.loguni(r, 1e-7, 1e-5)))
                t = (sec + t) if r.random() < 0.5 else (t + sec)
            return t + " -steps %d\n -tol 1e-9\n" % TSTEP
        if kind == "reaction":
            w = r.random()
            if w < 0.2:       # several steps: RUN_CELLS and USE + SAVE both walk through them and keep the last
                return " %s 1\n %s mmol\n" % (r.choice(sorted(FORMULA_ELEMS)), " ".join(f(gens.loguni(r, 0.1, 5)) for _ in range(r.randint(2, 3))))
            if w < 0.35:
                return " %s 1\n %s mmol in %d steps\n" % (r.choice(sorted(FORMULA_ELEMS)), f(gens.loguni(r, 0.1, 5)), r.randint(2, 3))
            return " %s 1\n %s mmol\n" % (r.choice(sorted(FORMULA_ELEMS)), f(gens.loguni(r, 0.1, 5)))
        if kind == "reaction_temperature":
            return " %s\n" % f(r.choice([20, 30, 35, 50]))
        if kind == "reaction_pressure":
            return " %s\n" % f(r.choice([1, 2, 5]))
        if kind == "mix":
            sols = self.have("solution")
            picks = r.sample(sols, min(len(sols), r.randint(1, 2)))
            return "".join(" %d %s\n" % (n, f(round(r.uniform(0.2, 1.0), 2))) for n in picks)
        raise KeyError(kind)

    # ---------------------------------------------------------------- operations
    def op_define(self, kind=None):
        r = self.rng
        kind = kind or r.choice(KINDS)
        if kind == "mix" and not self.have("solution"):
            kind = "solution"
        a, b = rr(r)
        t = "%s %s\n%s" % (kind.upper(), rtxt(a, b), self.body(kind))
        tk = self.new()
        for n in range(a, b + 1):
            self.m[(kind, n)] = tk
        # a MIX (or a reactant defined alone) triggers a batch reaction whose result is not saved; kinetic reactants of the same
        # numbers could take part only if defined in the same simulation - they are not
        self.add(t + "END\n", "define", "define|%s|%s" % (kind, shape(a, b)), fresh=[(kind, n) for n in range(a, b + 1)])

    def op_copy(self):
        r = self.rng
        if r.random() < 0.3:
            src = r.randint(1, 8)
            a, b = rr(r)
            if r.random() < 0.35:
                a, b = max(1, src - r.randint(0, 2)), src + r.randint(1, 2)      # the target range holds the source number and goes on beyond it
            for k in KINDS:
                if (k, src) in self.m:
                    for n in range(a, b + 1):
                        self.m[(k, n)] = self.m[(k, src)]
            self.add("COPY cell %d %s\nEND\n" % (src, rtxt(a, b)), "copy", "copy|cell|%s" % shape(a, b))
            return
        kind = r.choice(KINDS)
        hv = self.have(kind)
        src = r.choice(hv) if hv and r.random() < 0.85 else r.randint(1, 9)
        a, b = rr(r)
        if r.random() < 0.35:
            a, b = max(1, src - r.randint(0, 2)), src + r.randint(1, 2)
        present = (kind, src) in self.m
        if present:
            for n in range(a, b + 1):
                self.m[(kind, n)] = self.m[(kind, src)]
        self.add("COPY %s %d %s\nEND\n" % (COPY_WORD.get(kind, kind), src, rtxt(a, b)), "copy", "copy|%s|%s%s" % (kind, shape(a, b), "" if present else "|absent-source"))

    def op_delete(self):
        r = self.rng
        w = r.random()
        if w < 0.04:
            self.m.clear()
            self.add("DELETE\n -all\nEND\n", "delete", "delete|all|-")
            return
        if w < 0.25:
            a, b = rr(r)
            for k in KINDS:
                for n in range(a, b + 1):
                    self.m.pop((k, n), None)
            self.add("DELETE\n -cell %s\nEND\n" % rtxt(a, b), "delete", "delete|cell|%s" % shape(a, b))
            return
        t = "DELETE\n"
        sg = []
        for kind in r.sample(KINDS, r.randint(1, 3)):
            items = []
            for _ in range(r.randint(1, 2)):
                a, b = rr(r)
                items.append(rtxt(a, b))
                for n in range(a, b + 1):
                    self.m.pop((kind, n), None)
                sg.append("delete|%s|%s" % (kind, shape(a, b)))
            t += " -%s %s\n" % (DELETE_WORD.get(kind, kind), " ".join(items))
        self.add(t + "END\n", "delete", sg[0])
        for s in sg[1:]:
            self.steps[-1].setdefault("moresigs", []).append(s)

    def op_range_then_single(self):
        """a number range of one kind, then one inner entry deleted, then an unrelated number of the same kind defined: the first definition's range
        must not be replayed by the later one (three consecutive steps, each checked like any other)"""
        r = self.rng
        kind = r.choice([k for k in KINDS if k != "mix"])
        a = r.randint(1, 4)
        b = a + r.randint(1, 3)
        t = "%s %d-%d\n%s" % (kind.upper(), a, b, self.body(kind))
        tk = self.new()
        for n in range(a, b + 1):
            self.m[(kind, n)] = tk
        self.add(t + "END\n", "define", "define|%s|%s" % (kind, shape(a, b)), fresh=[(kind, n) for n in range(a, b + 1)])
        inner = r.randint(a + 1, b)
        self.m.pop((kind, inner), None)
        self.add("DELETE\n -%s %d\nEND\n" % (DELETE_WORD.get(kind, kind), inner), "delete", "delete|%s|inner-of-range" % kind)
        c = r.choice([n for n in range(1, 10) if n < a or n > b])
        t = "%s %d\n%s" % (kind.upper(), c, self.body(kind))
        self.m[(kind, c)] = self.new()
        self.add(t + "END\n", "define", "define|%s|after-range" % kind, fresh=[(kind, c)])

    def _uses(self, n_sol, pick_numbers):
        """USE lines for a batch reaction; returns (text, used dict kind->n)"""
        r = self.rng
        used = {}
        t = ""
        for kind in KINDS:
            if kind in ("solution", "mix"):
                continue
            hv = self.have(kind)
            if hv and r.random() < 0.4:
                n = pick_numbers(kind, hv)
                used[kind] = n
                t += "USE %s %d\n" % (USE_WORD.get(kind, kind), n)
        return t, used

    def op_react(self):
        r = self.rng
        sols = self.have("solution")
        if not sols:
            return self.op_define("solution")
        src = r.choice(sols)
        t = "USE solution %d\n" % src
        ut, used = self._uses(src, lambda k, hv: r.choice(hv))
        t += ut
        maychange = set()
        if "kinetics" in used:
            maychange.add(("kinetics", used["kinetics"]))
            self.m[("kinetics", used["kinetics"])] = self.new()      # updated in place by the integration
        if not [k for k in used if k not in ("reaction_temperature", "reaction_pressure")]:
            # a batch reaction (and hence SAVE) only happens when some reactant is present: add a REACTION that adds nothing
            rn = r.randint(1, 8)
            self.m[("reaction", rn)] = self.new()
            t += "REACTION %d\n H2O 1\n 0 mol\n" % rn
            used["reaction"] = rn
        a, b = rr(r)
        tk = self.new()
        t += "SAVE solution %s\n" % rtxt(a, b)
        fresh = []
        for n in range(a, b + 1):
            self.m[("solution", n)] = tk
            fresh.append(("solution", n))
        sg = ["save|solution|%s" % shape(a, b)]
        for kind in SAVABLE:
            if kind in used and r.random() < 0.6:
                a2, b2 = rr(r)
                tk2 = self.new()
                t += "SAVE %s %s\n" % (USE_WORD.get(kind, kind), rtxt(a2, b2))
                for n in range(a2, b2 + 1):
                    self.m[(kind, n)] = tk2
                    fresh.append((kind, n))
                sg.append("save|%s|%s" % (kind, shape(a2, b2)))
        self.add(t + "END\n", "react", sg[0], maychange=maychange, fresh=fresh)
        self.steps[-1]["moresigs"] = sg[1:] + ["use|%s|-" % k for k in used]

    def op_resave(self):
        """USE solution a; SAVE solution c (no reactants): c must carry a's current totals"""
        r = self.rng
        sols = self.have("solution")
        if not sols:
            return self.op_define("solution")
        src = r.choice(sols)
        a, b = rr(r)
        tk = self.new()
        for n in range(a, b + 1):
            self.m[("solution", n)] = tk
        # a batch reaction (and hence SAVE) only happens when some reactant is present: a REACTION that adds nothing
        rn = r.randint(1, 8)
        self.m[("reaction", rn)] = self.new()
        self.add("USE solution %d\nREACTION %d\n H2O 1\n 0 mol\nSAVE solution %s\nEND\n" % (src, rn, rtxt(a, b)), "resave", "use+save|solution|%s" % shape(a, b),
                 totals=dict(kind="copy", src=[(src, 1.0)], dst=list(range(a, b + 1))), fresh=[("solution", n) for n in range(a, b + 1)] + [("reaction", rn)])

    def op_mix(self):
        r = self.rng
        sols = self.have("solution")
        if not sols:
            return self.op_define("solution")
        picks = r.sample(sols, min(len(sols), r.randint(1, 3)))
        fr = [(n, round(r.uniform(0.1, 1.2), 2)) for n in picks]
        dst = r.randint(1, 8)
        tk = self.new()
        if r.random() < 0.5:
            t = "SOLUTION_MIX %d\n" % dst + "".join(" %d %s\n" % (n, gens.fmt(f)) for n, f in fr) + "END\n"
            self.m[("solution", dst)] = tk
            self.add(t, "solution_mix", "solution_mix|solution|n=%d" % len(fr), totals=dict(kind="mix", src=fr, dst=[dst]), fresh=[("solution", dst)])
        else:
            mixn = r.randint(1, 8)
            t = "MIX %d\n" % mixn + "".join(" %d %s\n" % (n, gens.fmt(f)) for n, f in fr) + "SAVE solution %d\nEND\n" % dst
            self.m[("mix", mixn)] = self.new()
            self.m[("solution", dst)] = tk
            self.add(t, "mix", "mix+save|solution|n=%d" % len(fr), totals=dict(kind="mix", src=fr, dst=[dst]), fresh=[("solution", dst), ("mix", mixn)])

    def op_modify(self):
        r = self.rng
        cands = [k for k in ("solution", "equilibrium_phases", "kinetics", "reaction_temperature", "gas_phase") if self.have(k)]
        if not cands:
            return self.op_define("solution")
        kind = r.choice(cands)
        n = r.choice(self.have(kind))
        f = gens.fmt
        if kind == "solution":
            which = r.choice(["temp", "totals", "cb", "pressure"])
            if which == "temp":
                t, allowed = "SOLUTION_MODIFY %d\n -temp %s\n" % (n, f(r.uniform(5, 60))), {"-temp"}
            elif which == "pressure":
                t, allowed = "SOLUTION_MODIFY %d\n -pressure %s\n" % (n, f(r.uniform(1.5, 9))), {"-pressure"}
            elif which == "cb":
                t, allowed = "SOLUTION_MODIFY %d\n -cb %s\n" % (n, f(r.uniform(-5e-5, 5e-5))), {"-cb"}
            else:
                el = r.choice(["Cl", "Br"])
                t, allowed = "SOLUTION_MODIFY %d\n -totals\n  %s %s\n" % (n, el, f(gens.loguni(r, 1e-4, 1e-2))), {el}
        elif kind == "equilibrium_phases":
            t, allowed = "EQUILIBRIUM_PHASES_MODIFY %d\n -component Calcite\n  -moles %s\n" % (n, f(gens.loguni(r, 0.01, 2))), None
        elif kind == "kinetics":
            t, allowed = "KINETICS_MODIFY %d\n -component zero_rate\n  -m %s\n" % (n, f(gens.loguni(r, 1e-3, 1e-2))), {"-m"}
        elif kind == "gas_phase":
            t, allowed = "GAS_PHASE_MODIFY %d\n -volume %s\n" % (n, f(r.uniform(0.3, 4))), {"-volume"}
        else:
            t, allowed = "REACTION_TEMPERATURE_MODIFY %d\n -temps\n  %s\n" % (n, f(r.uniform(10, 60))), None
        self.m[(kind, n)] = self.new()
        self.add(t + "END\n", "modify", "modify|%s|%s" % (kind, sorted(allowed)[0] if allowed else "component"), modify=((kind, n), allowed), fresh=[(kind, n)])

    def op_run_cells(self):
        r = self.rng
        cells = [n for n in range(1, 9) if ("solution", n) in self.m or ("mix", n) in self.m]
        # a MIX entry must only reference existing solutions, which cannot be known from tokens: restrict to cells without mix
        cells = [n for n in cells if ("mix", n) not in self.m and ("solution", n) in self.m]
        cells = [n for n in cells if any((k, n) in self.m for k in SAVABLE + ["reaction", "kinetics"])]
        if not cells:
            return self.op_define(r.choice(SAVABLE + ["reaction"]))
        pick = sorted(r.sample(cells, min(len(cells), r.randint(1, 2))))
        ta = "RUN_CELLS\n -cells %s\n -time_step %d\nEND\n" % (" ".join(map(str, pick)), TSTEP)
        tb = ""
        fresh = []
        for n in pick:
            tb += "USE solution %d\n" % n
            for kind in KINDS:
                if kind in ("solution", "mix"):
                    continue
                if (kind, n) in self.m:
                    tb += "USE %s %d\n" % (USE_WORD.get(kind, kind), n)
            tb += "SAVE solution %d\n" % n
            self.m[("solution", n)] = self.new()
            fresh.append(("solution", n))
            for kind in SAVABLE:
                if (kind, n) in self.m:
                    tb += "SAVE %s %d\n" % (USE_WORD.get(kind, kind), n)
                    self.m[(kind, n)] = self.new()
                    fresh.append((kind, n))
            if ("kinetics", n) in self.m:
                self.m[("kinetics", n)] = self.new()
                fresh.append(("kinetics", n))
            tb += "END\n"
        self.any_runcells = True
        self.add(ta, "run_cells", "run_cells|cells|n=%d" % len(pick), text_b=tb, cmp_ab=True, fresh=fresh)


def gen_cases(ctx):
    n = ctx.params.get("cases") or (200 if ctx.tier == "quick" else 5000)
    for i in range(n):
        yield dict(id="h%05d" % i, i=i, nops=20 if ctx.tier == "quick" else 60, flavour="asan" if i % 8 == 7 else "opt")


def build(ctx, case):
    r = ctx.rng("hist", case["i"])
    h = Hist(r)
    h.op_define("solution")
    h.op_define("solution")
    ops = [(h.op_define, 30), (h.op_copy, 16), (h.op_delete, 10), (h.op_react, 14), (h.op_resave, 5), (h.op_mix, 7), (h.op_modify, 8), (h.op_run_cells, 10), (h.op_range_then_single, 6)]
    tot = sum(w for _, w in ops)
    while len(h.steps) < case["nops"]:
        x = r.uniform(0, tot)
        for fn, w in ops:
            x -= w
            if x <= 0:
                fn()
                break
    return h


BLOCK_RE = re.compile(r"(?m)^(?=[A-Z_]+_RAW\s)")


def parse_dump(text):
    """(kind, n) -> list of body lines (without the header line)"""
    out = {}
    for b in BLOCK_RE.split(text):
        m = re.match(r"([A-Z_]+)_RAW\s+(-?\d+)(.*)\n", b)
        if not m:
            continue
        lines = []
        for ln in b.split("\n")[1:]:
            if ln.startswith("USE ") or ln.startswith("#") or ln.startswith("END"):
                break
            if ln.strip():
                lines.append(ln.rstrip())
        kind = m.group(1).lower()
        if kind == "kinetics":
            # '-totals' of a kinetic reactant is scratch data derived from the formula (filled in lazily by the next calculation)
            keep, skip = [], False
            for ln in lines:
                w = ln.split()
                if w[0].startswith("-"):
                    skip = w[0] == "-totals"
                    if skip:
                        continue
                if not skip:
                    keep.append(ln)
            lines = keep
        out[(kind, int(m.group(2)))] = lines
    return out


def sol_totals(lines):
    tot, intot = {}, False
    water = None
    for ln in lines:
        w = ln.split()
        if w[0].startswith("-"):
            intot = w[0] == "-totals"
            if w[0] in ("-total_h", "-total_o") and len(w) > 1:
                tot[w[0]] = float(w[1])
            continue
        if intot and len(w) >= 2:
            tot[w[0]] = float(w[1])
    return tot


def elements_of(kind, lines):
    els = set()
    if kind in ("solution", "exchange", "surface"):
        intot = False
        for ln in lines:
            w = ln.split()
            if w[0].startswith("-"):
                intot = w[0] in ("-totals",)
                continue
            if intot and len(w) >= 2:
                e = w[0].split("(")[0]
                try:
                    if float(w[1]) > 0:
                        els.add(e)
                except ValueError:
                    pass
    txt = "\n".join(lines)
    if kind == "gas_phase":
        # a gas component counts when it holds moles (a component left at 0 mol holds none of its elements)
        comp = None
        for ln in lines:
            w = ln.split()
            if w and w[0] == "-component" and len(w) > 1:
                comp = w[1]
            elif w and w[0] == "-moles" and comp is not None and len(w) > 1:
                try:
                    if float(w[1]) > 0 and comp in MINERALS:
                        els.update(MINERALS[comp])
                except ValueError:
                    pass
                comp = None
    if kind in ("equilibrium_phases", "solid_solutions"):
        for p, es in MINERALS.items():
            if re.search(r"(?m)^\s*(-component|-phase_name|-name)?\s*%s\s*$" % re.escape(p), txt) or re.search(r"(?m)^\s*-component\s+%s\b" % re.escape(p), txt):
                els.update(es)
    if kind in ("kinetics", "reaction"):
        for fm, es in FORMULA_ELEMS.items():
            if re.search(r"\b%s\b" % fm, txt):
                els.update(es)
    return {e for e in els if e not in ("H", "O", "E", "X", "Hfo_w", "Hfo_s", "Charge") and not e.startswith("Hfo")}


NUM = re.compile(r"^[-+]?(\d+\.?\d*|\.\d+)([eE][-+]?\d+)?$")


def lines_close(la, lb, rel=1e-8, ab=1e-12):      # 1e-12 mol: differences of step sums of 1e-3 mol leave residues of a few 1e-14 (thorough seed 8: N(5) 2.5e-14 vs 5.0e-14)
    if len(la) != len(lb):
        return "line counts %d vs %d" % (len(la), len(lb))
    for x, y in zip(la, lb):
        if x == y:
            continue
        wx, wy = x.split(), y.split()
        if len(wx) != len(wy):
            return "%r vs %r" % (x, y)
        for a, b in zip(wx, wy):
            if a == b:
                continue
            if NUM.match(a) and NUM.match(b):
                fa, fb = float(a), float(b)
                if abs(fa - fb) <= rel * max(abs(fa), abs(fb)) + ab:
                    continue
                if wx[0] == "-cb" and abs(fa - fb) <= 1e-11:
                    continue      # the charge balance of a neutral water is the round-off of sums of 1e-3 eq: 1e-14 vs 5e-14 (thorough seed 8) is no difference
            return "%r vs %r" % (x, y)
    return None


SOL_STATE = ("-temp", "-pressure", "-total_h", "-total_o", "-cb", "-totals", "-mass_water")


def state_lines(kind, lines):
    """solutions: conserved quantities and T, P, water (log activities / gammas are stored initial guesses, pe floats without a redox couple,
    and valence-state rows below 1e-18 mol sit at the solver's floor); other kinds: everything"""
    if kind != "solution":
        return lines
    out, keep = [], False
    for ln in lines:
        w = ln.split()
        if w[0].startswith("-"):
            keep = w[0] in SOL_STATE
            if keep:
                out.append(ln)
            continue
        if keep:
            try:
                if abs(float(w[1])) < 1e-18:
                    continue
            except (ValueError, IndexError):
                pass
            out.append(ln)
    return out


LOOSE = ("-gammas", "-activities", "-la", "-lm", "-pH", "-pe", "-mu", "-ah2o", "-density", "-viscosity", "-viscos_0", "-soln_vol", "-total_alkalinity",
         "-charge_balance", "-si", "-initial_moles", "-delta", "-moles", "-totals")


def run_case(ctx, case):
    cwd = ctx.scratch(case["id"])
    h = build(ctx, case)
    fl = case["flavour"]
    dbp = os.path.join(ctx.db, "phreeqc.dat")
    s = core.Script()
    for inst in ("a", "b"):
        s.raw("new " + inst)
        s.raw("loaddb %s %s" % (inst, dbp))
        s.raw("set %s DumpStringOn 1" % inst)
        s.run(inst, PRELUDE)
    for i, st in enumerate(h.steps):
        for inst, key in (("a", "text"), ("b", "text_b")):
            if inst == "b" and not h.any_runcells:
                continue
            s.raw("tag %s:%d" % (inst, i))
            s.run(inst, st[key])
            s.raw("snap %s e" % inst)
            s.run(inst, DUMP)
            s.raw("snap %s dc" % inst)
    run = core.run_vdrive(ctx.bin(fl), s.bytes(), cwd, timeout=300 if fl == "asan" else 120, flavour=fl)
    pf = core.process_failure(run)
    if pf:
        if pf[0] in ("timeout", "harness"):
            return Result(INCONCLUSIVE, reason="%s: %s" % (pf[0], (pf[2] or "")[:150]))
        lc = run["last_call"] or {}
        tag = lc.get("tag", "?")
        stp = h.steps[int(tag.split(":")[1])] if ":" in tag else {}
        return Result(VIOLATED, key="C14/%s/%s" % (pf[1], stp.get("op", "?")), what="process ended abnormally at step %s (%s): %s" % (tag, stp.get("text", "")[:200], pf[2][:2000]))
    # collect per (inst, step): run return, error text, dump, components
    obs = {}
    cur = {}
    for rec in run["records"]:
        if rec.get("ev") != "ret" or ":" not in rec.get("tag", ""):
            continue
        k = rec["tag"]
        o = obs.setdefault(k, {"runs": [], "snaps": []})
        if rec["op"] == "run":
            o["runs"].append(rec.get("r"))
        elif rec["op"] == "snap":
            o["snaps"].append(rec)
    sigs, findings, ncmp, nsteps = set(), [], 0, 0
    prev = {"a": ({}, {}), "b": ({}, {})}    # inst -> (dump dict, model)
    sample = dict(id=case["id"], flavour=fl, ops=[st["op"] for st in h.steps], first_steps=[st["text"] for st in h.steps[:4]])
    stop = None

    def bad(key, what, i):
        findings.append(("C14/" + key, "%s [step %d %r, case %s]" % (what, i, h.steps[i]["text"][:160], case["id"])))

    for i, st in enumerate(h.steps):
        dumps = {}
        for inst in ("a", "b"):
            o = obs.get("%s:%d" % (inst, i))
            if o is None:
                continue
            if len(o["runs"]) < 2 or len(o["snaps"]) < 2:
                stop = "incomplete record at step %d" % i
                break
            if o["runs"][0] != 0:
                et = o["snaps"][0]["error"].get("text", "").strip().split("\n")[0][:70]
                stop = "step %d (%s) reports an error: %s" % (i, st["op"], et)
                break
            if o["runs"][1] != 0:
                bad("dump-fails", "DUMP -all returned %r: %s" % (o["runs"][1], o["snaps"][1]["error"]), i)
                stop = "dump failed"
                break
            dumps[inst] = (parse_dump(o["snaps"][1]["dump"].get("text", "")), o["snaps"][1].get("components", []))
        if stop:
            break
        nsteps += 1
        model = st["model"]
        for inst, (d, comps) in dumps.items():
            pd, pm = prev[inst]
            dk = {k for k in d if k[1] >= 0}
            mk = set(model)
            if dk != mk:
                extra, missing = sorted(dk - mk), sorted(mk - dk)
                bad("keys/%s" % st["op"], "store keys differ from the reference map after %s on instance %s: unexpected %s, missing %s" % (st["op"], inst, extra[:6], missing[:6]), i)
                stop = "reference map out of step"
                break
            # unchanged entries stay textually unchanged
            for k in mk:
                if k in pm and pm[k] == model[k] and k not in st["maychange"] and k in pd:
                    ncmp += 1
                    if d[k] != pd[k]:
                        diff = next((x, y) for x, y in zip(d[k] + ["<end>"], pd[k] + ["<end>"]) if x != y)
                        bad("untouched-entry-changed/%s/%s" % (st["op"], k[0]), "%s %d was not named by the operation but its content changed on instance %s: %r -> %r" % (k[0], k[1], inst, diff[1], diff[0]), i)
            # entries sharing a token are identical
            groups = {}
            for k, tk in model.items():
                groups.setdefault((k[0], tk), []).append(k)
            for (kind, tk), ks in groups.items():
                if len(ks) < 2:
                    continue
                ks.sort()
                for k2 in ks[1:]:
                    ncmp += 1
                    if k2 in st["maychange"] or ks[0] in st["maychange"]:
                        continue
                    if d[k2] != d[ks[0]]:
                        diff = next((x, y) for x, y in zip(d[k2] + ["<end>"], d[ks[0]] + ["<end>"]) if x != y)
                        bad("copies-differ/%s/%s" % (st["op"], kind), "%s %d and %d should have identical content (same source) on instance %s but differ: %r vs %r" % (kind, ks[0][1], k2[1], inst, diff[1], diff[0]), i)
            # modify touches only the named option
            if st["modify"] and st["modify"][0] in pd and st["modify"][0] in d:
                k, allowed = st["modify"]
                ncmp += 1
                if allowed is not None:
                    changed = [(x, y) for x, y in zip(pd[k], d[k]) if x != y]
                    if len(pd[k]) != len(d[k]):
                        changed.append(("<%d lines>" % len(pd[k]), "<%d lines>" % len(d[k])))
                    if k[0] == "solution" and allowed <= {"Cl", "Br"}:
                        pass     # a new element line may be inserted into -totals
                    for x, y in changed:
                        w = (y.split() or x.split() or ["?"])[0]
                        wx = (x.split() or ["?"])[0]
                        if w not in allowed and wx not in allowed and not (k[0] == "solution" and allowed <= {"Cl", "Br"} and len(pd[k]) != len(d[k])):
                            bad("modify-touches-other-field/%s" % k[0], "%s_MODIFY %d of %s changed another line: %r -> %r" % (k[0].upper(), k[1], sorted(allowed), x, y), i)
                            break
                    if not changed:
                        bad("modify-no-effect/%s" % k[0], "%s_MODIFY %d of %s left the entry unchanged" % (k[0].upper(), k[1], sorted(allowed)), i)
            # totals of re-saved / mixed solutions
            if st["totals"]:
                tc = st["totals"]
                srcs = [(n, f) for n, f in tc["src"]]
                if all(("solution", n) in pd for n, _ in srcs):
                    want = {}
                    for n, f in srcs:
                        for e, v in sol_totals(pd[("solution", n)]).items():
                            want[e] = want.get(e, 0.0) + f * v
                    for dn in tc["dst"]:
                        got = sol_totals(d[("solution", dn)])
                        for e, v in want.items():
                            if e in ("-cb",) or "(" in e:
                                continue      # valence-state split is a speciation result; charge balance judged by C02
                            ncmp += 1
                            g = got.get(e, 0.0)
                            if abs(g - v) > 1e-8 * max(abs(g), abs(v)) + 1e-14:
                                bad("use-reads-stale-content/%s" % st["op"], "solution %d after %s: %s = %.14g, the current content of the source(s) %s prescribes %.14g (instance %s)" % (
                                    dn, st["op"], e, g, srcs, v, inst), i)
                                break
            # component list contains every element of every defined reactant
            els = set()
            for k, lines in d.items():
                if k[1] >= 0:
                    els |= elements_of(k[0], lines)
            ncmp += 1
            miss = sorted(els - set(comps))
            if miss:
                where = []
                for k, lines in d.items():
                    if k[1] >= 0 and (elements_of(k[0], lines) & set(miss)):
                        where.append("%s %d: %s" % (k[0], k[1], [ln.strip() for ln in lines if ln.split() and ln.split()[0].split("(")[0] in miss][:3]))
                bad("components-missing", "component list %s lacks %s present in a defined reactant (instance %s): %s" % (comps, miss, inst, where[:4]), i)
            prev[inst] = (d, model)
        if stop:
            break
        # RUN_CELLS vs explicit USE/SAVE
        if st["cmp_ab"] and "a" in dumps and "b" in dumps:
            da, db_ = dumps["a"][0], dumps["b"][0]
            for k in sorted(st["fresh"]):
                if k in da and k in db_:
                    ncmp += 1
                    e = lines_close(state_lines(k[0], da[k]), state_lines(k[0], db_[k]))
                    if e:
                        bad("run_cells-vs-explicit/%s" % k[0], "%s %d after RUN_CELLS differs from the explicit USE...SAVE sequence: %s" % (k[0], k[1], e), i)
        if not findings or len(findings) < 6:
            if model or prev["a"][1]:
                sigs.add(st["sig"])
                sigs.update(st.get("moresigs", []))
        if len(findings) >= 6:
            break
    stats = {"n_steps_judged": nsteps, "n_comparisons": ncmp, "n_steps_total": len(h.steps)}
    if findings:
        k, w = findings[0]
        return Result(VIOLATED, key=k, what=w, findings=findings[1:], sigs=sigs, sample=sample, stats=stats)
    if nsteps < 3:
        return Result(INCONCLUSIVE, reason=stop or "too few steps")
    sample["stopped"] = stop
    return Result(HELD, sigs=sigs, sample=sample, stats=stats)
