"""C06 - deterministic results; instances are isolated and usable from parallel threads.

Three monitors over the real library:
 1. race detector: vthreads (ThreadSanitizer build) runs N threads, each interpreting its own scenario on its own instances
    (created through the C or C++ API), with a start barrier and a seeded delay/yield hook at the VERIF_POINT sites around the
    registry critical sections and at do_run entry.  Every TSan report is reduced to a key (global symbol name, or the pair of
    innermost library frames).
 2. isolation/determinism: every thread's per-call records (return values, digests of output/log/dump/error/warning strings,
    selected-output tables and strings, component lists) must equal those of the same scenario run alone in a fresh process;
    the same scenario on 3 fresh instances in each of 3 processes must be identical (ASLR on).
 3. registry: ids handed out in a process are pairwise distinct, a look-up of a live id answers with that instance's own
    default file name, and no run needs the watchdog (a watchdog firing is inconclusive, retried once).
"""
import glob
import hashlib
import json
import os
import re
import subprocess
import time

from vlib import core, gens, examples
from vlib.core import Result, HELD, VIOLATED, INCONCLUSIVE
from props.c05 import INVERSE

PROP = "C06"
FLAVOURS = ["tsan", "opt"]
PROGS = ("vdrive", "vthreads")
RULE = ("cases: (mix) 2-16 threads, each with a seeded scenario drawn from 16 kinds (speciation/reaction, RK and CVODE kinetics, ADVECTION, TRANSPORT plain / "
        "multicomponent / implicit / stagnant / thermal, inverse modelling, BASIC-heavy punch, surface+exchange, Pitzer, dump+read-back, shipped examples, registry storm), "
        "at least two threads of a mix share a kind; run under TSan and under -O2, with and without injected delays; (repeat) one scenario on 3 fresh instances x 3 processes; "
        "(storm) 8-16 threads creating/looking up/destroying instances through all bindings with delays at the registry hook sites. "
        "distinct & non-trivial = distinct unordered pairs of scenario kinds whose run calls overlapped in time (from the recorded time stamps) + distinct registry-event interleaving signatures")
ASSUME = ["each thread uses only its own instances (the statement's 'distinct instances')",
          "elapsed-time banner and id-derived default file names are masked",
          "file sinks stay off in threaded scenarios (two instances told to write the same -file name would race in the file system, not in the library)",
          "a clean ThreadSanitizer run says nothing about pairs of code paths that never overlapped; the overlapping kind pairs are listed in the evidence",
          "glibc qsort is itself thread-safe: removing qsort_lock creates no race here and raises no alarm"]

DB = "phreeqc.dat"


# ------------------------------------------------------------------------------------------------ scenarios
def _inst_block(s, name, api, dbp, text_list, rng, extra_snap=""):
    s.raw("%s %s" % ("cnew" if api == "c" else "new", name))
    s.raw("loaddb %s %s" % (name, dbp))
    for sw in ("OutputStringOn", "SelectedOutputStringOn", "DumpStringOn", "LogStringOn"):
        s.raw("set %s %s 1" % (name, sw))
    for t in text_list:
        s.run(name, t)
        s.raw("snap %s c%s" % (name, extra_snap))
    s.raw("del %s" % name)


SELOUT = ("SELECTED_OUTPUT 1\n -high_precision true\n -totals Na Cl Ca C(4) S(6) K Mg\n -molalities H+ OH- CO3-2 CaSO4 NaX CaX2\n -saturation_indices Calcite Gypsum CO2(g)\n"
          " -equilibrium_phases Calcite Gypsum\n -kinetic_reactants zero_rate first_rate\n -ionic_strength true\n -alkalinity true\n")


def scen_texts(kind, rng, repo):
    """returns (database path relative to repo, [input texts])"""
    f = gens.fmt
    if kind == "spec":
        return "database/phreeqc.dat", [SELOUT + gens.solution(rng, 1) + gens.eq_phases(rng, 1) + gens.reaction(rng, 1) + "END\n",
                                        "USE solution 1\n" + gens.exchange(rng, 1, equil=1) + gens.reaction(rng, 2) + "END\n"]
    if kind in ("kin_rk", "kin_cvode"):
        return "database/phreeqc.dat", [SELOUT + gens.RATE_SIMPLE + gens.solution(rng, 1) + gens.kinetics(rng, 1, cvode=(kind == "kin_cvode")) + "END\n"]
    if kind == "adv":
        n = rng.randint(3, 8)
        return "database/phreeqc.dat", [SELOUT + gens.solution(rng, 0, elements=["Na", "Cl", "K", "N(5)"]) + gens.solution(rng, "1-%d" % n, elements=["Ca", "Cl", "Na"])
                                        + gens.exchange(rng, "1-%d" % n, equil=1) + "ADVECTION\n -cells %d\n -shifts %d\n -punch_frequency 1\nEND\n" % (n, rng.randint(3, 8))]
    if kind.startswith("trn"):
        n = rng.randint(3, 7)
        t = SELOUT + gens.solution(rng, 0, elements=["Na", "Cl", "K"], charge="pH") + gens.solution(rng, "1-%d" % (2 * n + 1), elements=["Ca", "Cl", "Na"], charge="pH")
        if kind in ("trn", "trn_stag"):
            t += gens.exchange(rng, "1-%d" % n, equil=1)
        t += "TRANSPORT\n -cells %d\n -shifts %d\n -lengths %s\n -time_step %s\n -dispersivities %s\n -diffusion_coefficient %s\n -punch_frequency 1\n" % (
            n, rng.randint(2, 5), f(rng.choice([0.1, 0.05])), f(rng.choice([3600, 7200])), f(rng.choice([0.002, 0.01])), f(rng.choice([1e-9, 3e-10])))
        t += " -flow_direction %s\n -boundary_conditions %s %s\n" % (rng.choice(["forward", "back", "diffusion_only"]), rng.choice(["flux", "constant"]), rng.choice(["flux", "closed"]))
        if kind == "trn_mcd":
            t += " -multi_d true 1e-9 0.3 0.05 1.0\n"
        if kind == "trn_impl":
            t += " -multi_d true 1e-9 0.3 0.05 1.0\n -implicit true 1 -20\n"
        if kind == "trn_stag":
            t += " -stagnant 1 6.8e-6 0.3 0.1\n"
        if kind == "trn_heat":
            t += " -thermal_diffusion 2.0 1e-6\n"
            t = t.replace(" temp 25", " temp 40", 1)
        return "database/phreeqc.dat", [t + "END\n"]
    if kind == "inverse":
        return "database/phreeqc.dat", ["SELECTED_OUTPUT 1\n -reset false\n -inverse_modeling true\n" + INVERSE + "END\n"]
    if kind == "basic":
        prog = ["USER_PUNCH 1", " -headings a b c d e", " -start", "10 DIM q(50)", "20 FOR i = 1 TO 50", "30 q(i) = i * TOT(\"Na\") + SQRT(i)", "40 NEXT i",
                "50 s = 0", "60 FOR i = 1 TO 50 STEP 2", "70 s = s + q(i) * LOG10(i + 1)", "80 NEXT i", "90 a$ = STR$(STEP_NO) + \"_x\"",
                "100 PUT(s, 1, 2)", "110 PUNCH s, GET(1, 2), LEN(a$), EXP(-MU), SIM_NO", " -end"]
        return "database/phreeqc.dat", ["SELECTED_OUTPUT 1\n -reset false\n" + "\n".join(prog) + "\n" + gens.solution(rng, 1) + gens.reaction(rng, 1, steps="1 2 3 4 5 mmol") + "END\n"]
    if kind == "surf":
        return "database/phreeqc.dat", [SELOUT + gens.solution(rng, 1, elements=["Na", "Cl", "Ca", "Zn"], charge="pH") + gens.surface_full(rng, 1, 1) + gens.exchange(rng, 1, equil=1)
                                        + "END\nUSE solution 1\nUSE surface 1\nUSE exchange 1\n" + gens.reaction(rng, 1) + "END\n"]
    if kind == "pitzer":
        t = ("SELECTED_OUTPUT 1\n -high_precision true\n -totals Na Cl Mg S(6)\n -saturation_indices Halite Gypsum\nSOLUTION 1\n units mol/kgw\n Na %s\n Cl %s charge\n Mg %s\n S(6) %s\n"
             "EQUILIBRIUM_PHASES 1\n Halite 0 1\n Gypsum 0 0\nEND\n" % (f(rng.uniform(0.5, 4)), f(rng.uniform(0.5, 4)), f(rng.uniform(0.1, 1)), f(rng.uniform(0.1, 1))))
        return "database/pitzer.dat", [t]
    if kind == "dump":
        gens.REDOX_FREE = True
        prelude, text, cells, kinds = gens.rich_state(rng)
        gens.REDOX_FREE = False
        return "database/phreeqc.dat", [prelude + text, "DUMP\n -all\nEND\n", "RUN_CELLS\n -cells 1\nEND\n"]
    if kind.startswith("ex"):
        return examples.TABLE[kind][0], [examples.text(repo, kind)]
    raise KeyError(kind)


KINDS_QUICK = ["spec", "kin_rk", "kin_cvode", "adv", "trn", "trn_mcd", "trn_impl", "trn_stag", "trn_heat", "inverse", "basic", "surf", "pitzer", "dump", "ex2", "ex9", "ex13a", "storm"]
KINDS_SLOW = ["ex11", "ex12", "ex6", "ex10", "ex15"]


def scenario_script(ctx, kind, sseed, reps=2):
    """bytes of a vdrive script: 'reps' fresh instances, alternating API"""
    rng = ctx.rng("scen", kind, sseed)
    s = core.Script()
    if kind == "storm":
        n = 0
        live = []
        for i in range(rng.randint(40, 90)):
            w = rng.random()
            if w < 0.5 or not live:
                nm = "i%d" % n
                n += 1
                s.raw("%s %s" % (rng.choice(["new", "cnew", "fnew"]), nm))
                live.append(nm)
            elif w < 0.8:
                nm = rng.choice(live)
                s.raw("call %s %s GetOutputFileName" % (nm, rng.choice("cf")))
            else:
                nm = live.pop(rng.randrange(len(live)))
                s.raw("%s %s" % (rng.choice(["del", "cdel", "fdel"]), nm))
        for nm in live:
            s.raw("call %s c GetOutputFileName" % nm)
            s.raw("del %s" % nm)
        return s.bytes()
    for rep in range(reps):
        dbrel, texts = scen_texts(kind, ctx.rng("scen", kind, sseed, "t"), ctx.repo)      # same texts for every repetition
        _inst_block(s, "i%d" % rep, "c" if (rep + sseed) % 2 else "p", os.path.join(ctx.repo, dbrel), texts, rng)
    return s.bytes()


# ------------------------------------------------------------------------------------------------ record normalisation
DROP = ("seq", "t", "tag")


def norm_records(recs):
    out = []
    for r in recs:
        if r.get("ev") != "ret":
            continue
        d = {k: v for k, v in r.items() if k not in DROP}
        if d.get("op") in ("new", "cnew", "fnew"):
            d["r"], d["op"] = "id", "create"
        if d.get("op") == "set":
            d["r"] = None        # void through the C++ method, IPQ_OK through the C function
        if isinstance(d.get("output"), dict):
            d["output"] = {"h": d["output"].get("h")}      # the hash is taken with the elapsed-time banner masked; the length is not
        if d.get("op") == "call" and isinstance(d.get("r"), str) and re.match(r"^phreeqc\.\d+\.out$", d["r"]):
            d["r"] = "phreeqc.ID.out"
        if "selout" in d:
            d["selout"] = [{k: v for k, v in so.items() if k != "file_name"} for so in d["selout"]]
        out.append(d)
    return out


def load_jsonl(path):
    recs = []
    try:
        with open(path, "rb") as f:
            for line in f:
                line = line.strip()
                if line:
                    try:
                        recs.append(json.loads(line))
                    except ValueError:
                        recs.append({"ev": "garbled"})
    except OSError:
        pass
    return recs


def first_diff(a, b):
    for i, (x, y) in enumerate(zip(a, b)):
        if x != y:
            ks = [k for k in set(x) | set(y) if x.get(k) != y.get(k)]
            return "record %d (op %s): fields %s differ: %r vs %r" % (i, x.get("op"), ks, {k: x.get(k) for k in ks[:2]}, {k: y.get(k) for k in ks[:2]})
    if len(a) != len(b):
        return "record counts %d vs %d" % (len(a), len(b))
    return None


# ------------------------------------------------------------------------------------------------ TSan reports
def _tsan_frames(block):
    """(function, file:line) of the frames of a TSan stack ('#N func /path/file:line (module+0x..)')"""
    out = []
    for m in re.finditer(r"(?m)^\s+#\d+ (.+?) (/\S+?):\d+(?::\d+)? \(", block):
        fn = m.group(1).split("(")[0]
        out.append((fn, m.group(2)))
    return out


def _lib_top(block):
    for fn, path in _tsan_frames(block):
        if "/src/" in path and "/harness/" not in path:
            return fn
    return None


def tsan_reports(cwd):
    """list of (key, text)"""
    out = []
    for p in sorted(glob.glob(os.path.join(cwd, "tsan.*"))):
        try:
            t = open(p, errors="replace").read()
        except OSError:
            continue
        for m in re.finditer(r"ERROR: ThreadSanitizer: (\S+)[^\n]*\n(?:[^\n]*\n){0,3}?((?:\s+#\d+ [^\n]*\n)+)", t):
            fr = [fn for fn, path in _tsan_frames(m.group(2)) if "/src/" in path and "/harness/" not in path][:2]
            out.append(("crash/%s/%s" % (m.group(1), "<-".join(fr) or "unknown"), t[m.start():m.start() + 4000]))
        for blk in re.split(r"(?m)^(?==+\nWARNING: ThreadSanitizer)", t):
            if "WARNING: ThreadSanitizer" not in blk:
                continue
            kind = re.search(r"WARNING: ThreadSanitizer: ([^(\n]+)", blk).group(1).strip().replace(" ", "-")
            m = re.search(r"Location is global '([^']+)'", blk)
            if m:
                key = "%s/global:%s" % (kind, re.sub(r"\[.*?\]", "", m.group(1)))
            else:
                stacks = re.split(r"\n\s*\n", blk)
                tops = []
                for st in stacks[:3]:
                    f = _lib_top(st)
                    if f:
                        tops.append(f)
                key = "%s/%s" % (kind, "|".join(sorted(set(tops))[:2]) or "unknown")
            out.append((key, blk[:4000]))
    return out


def run_vthreads(ctx, flavour, scripts, cwd, seed, delay_us, timeout):
    os.makedirs(cwd, exist_ok=True)
    paths = []
    for k, b in enumerate(scripts):
        p = os.path.join(cwd, "s%d.vd" % k)
        with open(p, "wb") as f:
            f.write(b)
        paths.append(p)
    with open(os.path.join(cwd, "manifest"), "w") as f:
        f.write("\n".join(paths) + "\n")
    env = dict(os.environ)
    env.update(core.SAN_ENV)
    env["TSAN_OPTIONS"] = "halt_on_error=0:exitcode=0:second_deadlock_stack=1:history_size=4:log_path=%s" % os.path.join(cwd, "tsan")
    t0 = time.time()
    try:
        p = subprocess.run([ctx.bin(flavour, "vthreads"), os.path.join(cwd, "manifest"), cwd, str(seed), str(delay_us)], cwd=cwd, env=env,
                           stdin=subprocess.DEVNULL, stdout=subprocess.PIPE, stderr=subprocess.PIPE, timeout=timeout)
        rc, err, to = p.returncode, p.stderr.decode("latin-1"), False
    except subprocess.TimeoutExpired as e:
        rc, err, to = None, (e.stderr or b"").decode("latin-1"), True
    threads = [load_jsonl(os.path.join(cwd, "t%d.jsonl" % k)) for k in range(len(scripts))]
    hooks = []
    for k in range(len(scripts)):
        hooks += load_jsonl(os.path.join(cwd, "hook%d.jsonl" % k))
    hooks.sort(key=lambda e: e.get("seq", 0))
    return dict(rc=rc, stderr=err, timed_out=to, threads=threads, hooks=hooks, wall=time.time() - t0)


def run_alone(ctx, flavour, script, cwd, timeout):
    os.makedirs(cwd, exist_ok=True)
    return core.run_vdrive(ctx.bin(flavour), script, cwd, timeout=timeout, flavour=flavour)


# ------------------------------------------------------------------------------------------------ cases
def gen_cases(ctx):
    quick = ctx.tier == "quick"
    n_mix = ctx.params.get("cases") or (18 if quick else 200)
    kinds = KINDS_QUICK + ([] if quick else KINDS_SLOW)
    for i in range(n_mix):
        r = ctx.rng("mix", i)
        nthr = r.choice([2, 4, 8, 8] if quick else [2, 3, 4, 8, 12, 16])
        ks = [r.choice(kinds) for _ in range(nthr)]
        ks[1] = ks[0] if r.random() < 0.7 else ks[1]            # at least one same-kind pair in most mixes
        if i < len(kinds):
            ks[0] = ks[1] = kinds[i]                              # every kind is paired with itself once
        fl = "tsan" if (i % 3 != 2) else "opt"
        yield dict(id="mix%04d" % i, kind="mix", kinds=ks, sseeds=[r.randrange(1 << 20) for _ in ks], flavour=fl, delay=r.choice([0, 200, 2000]), hseed=r.randrange(1 << 30))
    n_rep = 6 if quick else 60
    for i in range(n_rep):
        r = ctx.rng("rep", i)
        yield dict(id="rep%04d" % i, kind="repeat", skind=r.choice([k for k in kinds if k != "storm"]), sseed=r.randrange(1 << 20))
    n_storm = 6 if quick else 60
    for i in range(n_storm):
        r = ctx.rng("storm", i)
        yield dict(id="storm%03d" % i, kind="storm", nthr=r.choice([8, 12, 16]), sseeds=[r.randrange(1 << 20) for _ in range(16)], flavour="tsan" if i % 2 == 0 else "opt",
                   delay=r.choice([50, 500, 3000]), hseed=r.randrange(1 << 30))


def _overlaps(threads, kinds):
    """unordered kind pairs whose 'run' calls overlapped in time"""
    spans = []
    for k, recs in enumerate(threads):
        open_t = None
        for r in recs:
            if r.get("op") in ("run", "loaddb") and "t" in r:
                if r["ev"] == "call":
                    open_t = r["t"]
                elif r["ev"] == "ret" and open_t is not None:
                    spans.append((open_t, r["t"], k))
                    open_t = None
    pairs = set()
    spans.sort()
    for i, (a0, a1, ka) in enumerate(spans):
        for (b0, b1, kb) in spans[i + 1:]:
            if b0 >= a1:
                break
            if ka != kb:
                pairs.add("|".join(sorted([kinds[ka], kinds[kb]])))
    return pairs


def _registry_signature(hooks):
    seq = ["%s%s" % (e.get("thr"), {"ctor.before_lock": "C", "ctor.after_unlock": "c", "dtor.before_lock": "D", "dtor.after_unlock": "d",
                                   "getinstance.before_lock": "G", "getinstance.after_unlock": "g"}.get(e.get("site"), "")) for e in hooks
           if e.get("site", "").split(".")[0] in ("ctor", "dtor", "getinstance")]
    return hashlib.sha256(" ".join(seq).encode()).hexdigest()[:16], len(seq)


def _check_ids(threads, findings, tag):
    ids = []
    for k, recs in enumerate(threads):
        names = {}
        for r in recs:
            if r.get("ev") != "ret":
                continue
            if r.get("op") in ("new", "cnew", "fnew"):
                ids.append(r.get("r"))
                names[r.get("inst")] = r.get("r")
                if not isinstance(r.get("r"), int) or r["r"] < 0:
                    findings.append(("C06/registry/create-failed", "create returned %r in thread %d (%s)" % (r.get("r"), k, tag)))
            if r.get("op") == "call" and r.get("inst") in names and isinstance(r.get("r"), str):
                want = "phreeqc.%d.out" % names[r["inst"]]
                if r["r"] != want:
                    findings.append(("C06/registry/lookup", "look-up of live id %d in thread %d answered %r, expected %r (%s)" % (names[r["inst"]], k, r["r"], want, tag)))
            if r.get("op") in ("del", "cdel", "fdel"):
                if r.get("r") != 0:
                    findings.append(("C06/registry/destroy", "destroy of live id returned %r in thread %d (%s)" % (r.get("r"), k, tag)))
                names.pop(r.get("inst"), None)
    if len(ids) != len(set(ids)):
        dup = sorted(x for x in set(ids) if ids.count(x) > 1)
        findings.append(("C06/registry/duplicate-id", "ids handed out more than once in one process: %s (%s)" % (dup[:5], tag)))
    return len(ids)


def run_case(ctx, case):
    cwd = ctx.scratch(case["id"])
    findings, sigs, stats = [], set(), {}
    if case["kind"] == "repeat":
        script = scenario_script(ctx, case["skind"], case["sseed"], reps=3)
        runs = []
        for p in range(3):
            r = run_alone(ctx, "opt", script, os.path.join(cwd, "p%d" % p), 300)
            pf = core.process_failure(r)
            if pf:
                if pf[0] in ("timeout", "harness"):
                    return Result(INCONCLUSIVE, reason="%s in repeat run" % pf[0])
                return Result(VIOLATED, key="C06/%s" % pf[1], what="scenario %s ended abnormally: %s" % (case["skind"], pf[2][:1500]))
            runs.append(norm_records(r["records"]))
        # across processes
        for p in (1, 2):
            d = first_diff(runs[0], runs[p])
            if d:
                findings.append(("C06/nondeterministic/process/%s" % case["skind"], "scenario %s differs between two processes: %s" % (case["skind"], d)))
        # across fresh instances inside one process: split the record list per instance name
        per = {}
        for rec in runs[0]:
            per.setdefault(rec.get("inst"), []).append({k: v for k, v in rec.items() if k not in ("inst", "args")})
        names = sorted(per)
        for nm in names[1:]:
            d = first_diff(per[names[0]], per[nm])
            if d:
                findings.append(("C06/nondeterministic/instance/%s" % case["skind"], "scenario %s differs between two fresh instances of one process (%s vs %s): %s" % (case["skind"], names[0], nm, d)))
        errs = [rec for rec in runs[0] if rec.get("op") == "run" and rec.get("r") != 0]
        sigs.add("repeat|%s" % case["skind"])
        stats = {"n_records_compared": 3 * len(runs[0]), "n_failing_runs_in_scenarios": len(errs)}
        sample = dict(id=case["id"], kind="repeat", scenario=case["skind"], records=len(runs[0]))
    else:
        if case["kind"] == "storm":
            kinds = ["storm"] * case["nthr"]
            seeds = case["sseeds"][:case["nthr"]]
        else:
            kinds, seeds = case["kinds"], case["sseeds"]
        scripts = [scenario_script(ctx, k, sd) for k, sd in zip(kinds, seeds)]
        fl = case["flavour"]
        tmo = 1500 if fl == "tsan" else 400
        res = run_vthreads(ctx, fl, scripts, os.path.join(cwd, "thr"), case["hseed"], case["delay"], tmo)
        if res["timed_out"]:
            res = run_vthreads(ctx, fl, scripts, os.path.join(cwd, "thr2"), case["hseed"], case["delay"], tmo)
            if res["timed_out"]:
                return Result(INCONCLUSIVE, reason="watchdog fired twice (%d threads, kinds %s)" % (len(kinds), kinds))
        sf = core.sanitizer_findings(res["stderr"])
        if res["rc"] not in (0, None) and not sf:
            if res["rc"] < 0:
                return Result(VIOLATED, key="C06/signal/%s" % res["rc"], what="threaded run died with signal %s; kinds %s; stderr %s" % (-res["rc"], kinds, res["stderr"][-1500:]))
            return Result(INCONCLUSIVE, reason="vthreads rc=%s %s" % (res["rc"], res["stderr"][-200:]))
        for key, text in tsan_reports(os.path.join(cwd, "thr")) + tsan_reports(os.path.join(cwd, "thr2")):
            findings.append(("C06/" + key, "ThreadSanitizer report while running kinds %s (delay %d us):\n%s" % (kinds, case["delay"], text[:3000])))
        incomplete = [k for k, recs in enumerate(res["threads"]) if not recs or recs[-1].get("ev") != "end"]
        if incomplete:
            if findings:
                k, w = findings[0]
                return Result(VIOLATED, key=k, what=w, findings=findings[1:])
            if "DEADLYSIGNAL" in res["stderr"] or (res["rc"] or 0) < 0:
                last = [r for r in res["threads"][incomplete[0]] if r.get("ev") == "call"][-1:]
                return Result(VIOLATED, key="C06/crash/%s" % kinds[incomplete[0]], what="thread %d (scenario %s) died inside %s; kinds %s; %s" % (
                    incomplete[0], kinds[incomplete[0]], last, kinds, res["stderr"][-800:]))
            return Result(INCONCLUSIVE, reason="threads %s did not finish: %s" % (incomplete, res["stderr"][-300:]))
        nids = _check_ids(res["threads"], findings, "kinds %s" % kinds)
        # isolation: each thread equals its scenario run alone (same flavour)
        ncmp = 0
        for k, (sc, recs) in enumerate(zip(scripts, res["threads"])):
            if kinds[k] == "storm":
                continue
            alone = run_alone(ctx, fl, sc, os.path.join(cwd, "alone%d" % k), tmo)
            pf = core.process_failure(alone)
            if pf:
                if pf[0] in ("timeout", "harness"):
                    continue
                findings.append(("C06/%s" % pf[1], "scenario %s alone ended abnormally: %s" % (kinds[k], pf[2][:1500])))
                continue
            a, b = norm_records(alone["records"]), norm_records(recs)
            ncmp += len(a)
            d = first_diff(a, b)
            if d:
                findings.append(("C06/isolation/%s" % kinds[k], "thread %d (scenario %s) running beside %s gave different results than alone in a fresh process: %s" % (
                    k, kinds[k], [x for j, x in enumerate(kinds) if j != k], d)))
        pairs = _overlaps(res["threads"], kinds)
        sigs |= {"overlap|" + p for p in pairs}
        h, nreg = _registry_signature(res["hooks"])
        sigs.add("interleaving|" + h)
        stats = {"n_records_compared": ncmp, "n_hook_events": len(res["hooks"]), "n_registry_events": nreg, "n_instances_created": nids, "n_threads": len(kinds),
                 "set_overlapping_kind_pairs": sorted(pairs), "set_hook_sites": sorted({e.get("site") for e in res["hooks"]}), "n_tsan_runs": 1 if fl == "tsan" else 0}
        sample = dict(id=case["id"], kind=case["kind"], flavour=fl, threads=len(kinds), kinds=kinds, delay_us=case["delay"], overlapping_pairs=sorted(pairs)[:8],
                      registry_events=nreg, wall=round(res["wall"], 1))
    if findings:
        k, w = findings[0]
        return Result(VIOLATED, key=k, what=w, findings=findings[1:], sigs=sigs, sample=sample, stats=stats)
    return Result(HELD, sigs=sigs, sample=sample, stats=stats)
