"""C19 - gas phases obey their equation of state and fugacity-based equilibrium.

Monitor: seeded GAS_PHASE calculations (fixed pressure / fixed volume, 1-4 database gases, 0.01..1000 atm, 0..200 C, with and
without -equilibrate, reacted with a random water); USER_PUNCH records GAS() of every component, GAS_P, GAS_VM, PR_P, PR_PHI,
SI, TK and the -gases columns (pressure, total mol, volume).
Oracle (independent evaluation from the critical constants, acentric factors and binary parameters in the database *text*):
Peng-Robinson pressure from (T, V_m, mole fractions) equals the reported total pressure (1e-4); partial pressures are x_i P
and sum to P; ln phi_i from the mixture formula equals the reported PR_PHI inside the 0.01..85 clamp (1e-6); phi_i p_i =
10^SI_i; an absent fixed-pressure phase has sum of equilibrium partial pressures below P; a gas held in EQUILIBRIUM_PHASES
has SI = target + log10(phi).  States for which the cubic has three real roots are inconclusive (two-phase region).
"""
import math
import os

from vlib import core, gens
from vlib.core import Result, HELD, VIOLATED, INCONCLUSIVE
from props import c01

PROP = "C19"
FLAVOURS = ["opt"]
RULE = ("cases: seeded gas phases over CO2, CH4, N2, O2, H2O(g), H2(g), NH3(g), H2S(g) of phreeqc.dat: fixed pressure (0.01-1000 atm) or fixed volume, initial partial pressures, "
        "0-200 C, -equilibrate or not, in contact with a random water and optionally REACTION; plus single gases as EQUILIBRIUM_PHASES. distinct & non-trivial = distinct "
        "(gas set, fixed P/V, EOS branch one-root/three-root, clamp hit or not, gas present/absent)")
ASSUME = ["R = 0.0820597 L atm / (K mol) (the manual's value)", "Peng-Robinson constants 0.457235, 0.077796, kappa = 0.37464 + 1.54226 w - 0.26992 w^2; mixing rule sum x_i x_j sqrt(a_i alpha_i a_j alpha_j)(1 - k_ij) with k_ij from GAS_BINARY_PARAMETERS of the database text",
          "states whose cubic has three real roots are excluded by the statement and counted as inconclusive", "runs that report an error are inconclusive"]

R = 0.0820597
GASES = ["CO2(g)", "CH4(g)", "N2(g)", "O2(g)", "H2O(g)", "H2(g)", "NH3(g)", "H2S(g)"]
GAS_EL = {"CO2(g)": "C(4)", "CH4(g)": "C(-4)", "N2(g)": "N(0)", "O2(g)": "O(0)", "H2(g)": "H(0)", "NH3(g)": "N(-3)", "H2S(g)": "S(-2)"}


def gen_cases(ctx):
    n = ctx.params.get("cases") or (200 if ctx.tier == "quick" else 5000)
    for i in range(n):
        yield dict(id="g%05d" % i, i=i)


def pr_params(db, gas, tk):
    ph = db.phases[gas]
    a = 0.457235 * R * R * ph.t_c * ph.t_c / ph.p_c
    b = 0.077796 * R * ph.t_c / ph.p_c
    kk = 0.37464 + ph.omega * (1.54226 - 0.26992 * ph.omega)
    alpha = (1 + kk * (1 - math.sqrt(tk / ph.t_c))) ** 2
    return a, b, alpha


def kij(db, g1, g2):
    if (g1, g2) in db.gas_binary:
        return db.gas_binary[(g1, g2)]
    if (g2, g1) in db.gas_binary:
        return db.gas_binary[(g2, g1)]
    return 0.0


class _KijOver(object):
    """the database as the input has amended it: binary parameters of the named pairs replaced, whichever gas was named first"""

    def __init__(self, db, over):
        self._db = db
        gb = dict(db.gas_binary)
        for k, v in over.items():
            a, b = k.split("|")
            gb.pop((a, b), None)
            gb.pop((b, a), None)
            gb[(a, b)] = v
        self.gas_binary = gb

    def __getattr__(self, name):
        return getattr(self._db, name)


def mixture(db, x, tk):
    gs = [g for g in x if x[g] > 0]
    par = {g: pr_params(db, g, tk) for g in gs}
    b_sum = sum(x[g] * par[g][1] for g in gs)
    a_sum = 0.0
    a2 = {}
    for g in gs:
        s2 = 0.0
        for h in gs:
            aa = math.sqrt(par[g][0] * par[g][2] * par[h][0] * par[h][2]) * (1.0 - kij(db, g, h))
            a_sum += x[g] * x[h] * aa
            s2 += x[h] * aa
        a2[g] = s2
    return par, a_sum, b_sum, a2


def build(ctx, case, db):
    r = ctx.rng("gas", case["i"])
    f = gens.fmt
    mode = r.choice(["fixed_p", "fixed_p", "fixed_v", "fixed_v", "eqphase"])
    temp = r.choice([25, 25]) if r.random() < 0.3 else round(r.uniform(1, 200), 1)
    sol = "SOLUTION 1\n temp %s\n pH %s charge\n Na %s\n Cl %s\n C(4) %s\n" % ((f(temp), f(round(r.uniform(5, 8.5), 2))) + (lambda c: (f(c), f(c)))(gens.loguni(r, 0.1, 100)) + (f(gens.loguni(r, 0.1, 5)),))
    pool = ["CO2(g)", "N2(g)"] + (["H2O(g)"] if r.random() < 0.45 else []) + r.choice([["CH4(g)"], ["O2(g)"], ["H2(g)"], ["CH4(g)", "NH3(g)"], ["CH4(g)", "H2S(g)"], []])
    k = r.randint(1, min(4, len(pool)))
    gases = r.sample(pool, k)
    P = float(f(gens.loguni(r, 0.01, 1000)))
    w = [r.uniform(0.05, 1) for _ in gases]
    pp = {g: P * wi / sum(w) for g, wi in zip(gases, w)}
    info = dict(mode=mode, temp=temp, gases=gases, P=P)
    blocks = ""
    if mode == "eqphase":
        g = r.choice([x for x in gases if x != "H2O(g)"] or ["CO2(g)"])
        target = round(math.log10(gens.loguni(r, 0.01, 300)), 3)
        blocks = "EQUILIBRIUM_PHASES 1\n %s %s 10\n" % (g, f(target))
        info.update(gases=[g], target=target)
        gases = [g]
        # company in the assemblage (kept in name order by the engine): a mineral whose name sorts before the gas, or a second gas with its own pressure
        extra = r.choice([None, None, "Aragonite", "Anhydrite", "Barite", "gas2"])
        info["targets"] = {g: target}
        if extra == "gas2":
            g2 = r.choice([x for x in ["CO2(g)", "N2(g)", "CH4(g)", "O2(g)", "H2S(g)"] if x != g and x in db.phases])
            t2 = round(math.log10(gens.loguni(r, 0.01, 300)), 3)
            blocks += " %s %s 10\n" % (g2, f(t2))
            gases = [g, g2]
            info["targets"][g2] = t2
            info["gases"] = gases
        elif extra:
            blocks += " %s 0 0\n" % extra
        info["company"] = extra
    else:
        blocks = "GAS_PHASE 1\n -%s\n" % ("fixed_pressure" if mode == "fixed_p" else "fixed_volume")
        if mode == "fixed_p":
            blocks += " -pressure %s\n" % f(P)
        equil = mode == "fixed_v" and r.random() < 0.4      # -equilibrate is only defined for fixed-volume phases
        # with -equilibrate the gas takes the temperature of its solution: half of those cases leave -temperature out (it then stays at its 25 C default in the definition)
        blocks += " -volume %s\n" % f(gens.loguni(r, 0.05, 5)) + ("" if (equil and r.random() < 0.5) else " -temperature %s\n" % f(temp))
        if equil:
            blocks += " -equilibrate 1\n"
            for g in gases:
                blocks += " %s\n" % g
        else:
            for g in gases:
                blocks += " %s %s\n" % (g, f(pp[g] * (1 if mode == "fixed_v" else r.uniform(0.3, 1.5))))
        info["equil"] = equil
    react = gens.reaction(r, 1, steps="%s mmol" % f(gens.loguni(r, 0.1, 10))) if r.random() < 0.3 else ""
    info["react"] = bool(react)
    heads = ["tk", "gas_p", "gas_vm"]
    items = ["TK", "GAS_P", "GAS_VM"]
    for g in gases:
        heads += ["n:%s" % g, "pp:%s" % g, "phi:%s" % g, "si:%s" % g]
        items += ['GAS("%s")' % g, 'PR_P("%s")' % g, 'PR_PHI("%s")' % g, 'SI("%s")' % g]
    if mode == "eqphase":
        for g_ in gases:
            heads.append("equi:%s" % g_)
            items.append('EQUI("%s")' % g_)
    prog, ln = [], 10
    for i in range(0, len(items), 5):
        prog.append(" %d PUNCH %s" % (ln, ", ".join(items[i:i + 5])))
        ln += 10
    sel = ("SELECTED_OUTPUT 1\n -reset false\n -state true\n -gases %s\nUSER_PUNCH 1\n -headings %s\n -start\n%s\n -end\n" % (" ".join(gases), " ".join(heads), "\n".join(prog)))
    # history: in half of the cases the instance has evaluated the same gases at another temperature before (everything cached per gas must be refreshed)
    warm = ""
    if r.random() < 0.5:
        t2 = round(r.uniform(1, 200), 1)
        if abs(t2 - temp) < 5:
            t2 = temp + 30 if temp < 150 else temp - 60
        warm = ("SOLUTION 9\n temp %s\n pH 7 charge\n Na 10\n Cl 10\nGAS_PHASE 9\n -fixed_pressure\n -pressure %s\n -volume 1\n -temperature %s\n" % (f(t2), f(gens.loguni(r, 1, 300)), f(t2))
                + "".join(" %s %s\n" % (g, f(r.uniform(0.2, 2))) for g in gases) + "END\n")
        info["warm_temp"] = t2
    # binary interaction parameters given (again) by the input: pairs the database already defines (H2O(g)-X) or new ones, either name first, sometimes defined
    # twice - the last definition is the one the equation of state must use, for both orders of the pair
    kover, kblock = {}, ""
    if len(gases) >= 2 and r.random() < 0.35:
        pairs = [(a, b) for i_, a in enumerate(gases) for b in gases[i_ + 1:]]
        first = ""
        for a, b in r.sample(pairs, r.randint(1, min(3, len(pairs)))):
            if r.random() < 0.5:
                a, b = b, a
            v = round(r.uniform(-0.1, 0.6), 3)
            if r.random() < 0.4:
                x, y = (a, b) if r.random() < 0.5 else (b, a)
                first += " %s %s %s\n" % (x, y, f(round(r.uniform(-0.1, 0.6), 3)))
            kblock += " %s %s %s\n" % (a, b, f(v))
            kover[(a, b)] = v
        kblock = ("GAS_BINARY_PARAMETERS\n" + first if first else "") + "GAS_BINARY_PARAMETERS\n" + kblock
    info["kij_over"] = {"%s|%s" % k: v for k, v in kover.items()}
    nfv = mode == "fixed_v" and r.random() < 0.35      # the numerical fixed-volume method (the default under Pitzer databases) has its own Peng-Robinson routine
    info["numerical_fixed_volume"] = nfv
    text = "KNOBS\n -convergence_tolerance 1e-12\n -iterations 300\n" + (" -numerical_fixed_volume true\n" if nfv else "") + kblock + sel + warm + sol + "END\nUSE solution 1\n" + blocks + react + "END\n"
    return text, info


def three_real_roots(a_sum, b, P, T):
    """the cubic in V_m,  P V^3 + (P b - RT) V^2 + (a - 3 P b^2 - 2 RT b) V + (P b^3 + RT b^2 - a b) = 0,
    has three physically meaningful (real, V > b) roots: the state lies between the spinodals, i.e. in the two-phase region of the cubic"""
    import numpy
    if not all(math.isfinite(x) for x in (a_sum, b, P, T)) or P <= 0:
        return False
    rts = numpy.roots([P, P * b - R * T, a_sum - 3 * P * b * b - 2 * R * T * b, P * b ** 3 + R * T * b * b - a_sum * b])
    real = [z.real for z in rts if abs(z.imag) < 1e-9 * max(1.0, abs(z.real)) and z.real > b * (1 + 1e-9)]
    return len(real) >= 3


def run_case(ctx, case):
    db = c01.get_db(ctx, "phreeqc.dat")
    text, info = build(ctx, case, db)
    if info.get("kij_over"):
        db = _KijOver(db, info["kij_over"])
    cwd = ctx.scratch(case["id"])
    s = core.Script()
    s.raw("new a")
    s.raw("loaddb a " + os.path.join(ctx.db, "phreeqc.dat"))
    s.run("a", text)
    s.raw("snap a se")
    run = core.run_vdrive(ctx.bin("opt"), s.bytes(), cwd, timeout=120)
    if core.process_failure(run):
        return Result(INCONCLUSIVE, reason="process failure")
    rr, sn = core.rets(run, "run"), core.rets(run, "snap")
    if not rr or rr[0].get("r") != 0 or not sn or not sn[0]["selout"]:
        et = (sn[0]["error"].get("text", "") if sn else "").strip().split("\n")[0]
        return Result(INCONCLUSIVE, reason="run reports errors: " + " ".join(et.split())[:45])
    cells = sn[0]["selout"][0]["cells"]
    hd = [c[1] for c in cells[0]]
    rows = []
    for row in cells[1:]:
        d = {}
        for h, c in zip(hd, row):
            d[h] = c[1] if c[0] == "s" else (float(c[1]) if c[0] in "dl" else None)
        rows.append(d)
    rrows = [d for d in rows if d.get("state") == "react"]
    if not rrows:
        return Result(INCONCLUSIVE, reason="no reaction row")
    d = rrows[-1]
    tk = d["tk"]
    # a gas phase made by -equilibrate from solution 1 and then reacted with solution 1 (nothing else added) is already at equilibrium: the step moves nothing,
    # every gas keeps the saturation index it has in the initial solution
    # (the initial composition is made with the ideal-gas law, so the statement is exact only where the Peng-Robinson correction is small: judged below 2 atm at 5e-3 in SI)
    if info.get("equil") and not info.get("react") and (d.get("gas_p") or 99) <= 2.0:
        irow = [x for x in rows if x.get("state") == "i_soln"]
        if irow:
            for g_ in info["gases"]:
                a_, b_ = irow[-1].get("si:%s" % g_), d.get("si:%s" % g_)
                if a_ is not None and b_ is not None and a_ > -5 and b_ > -90 and abs(a_ - b_) > 2e-3 + 0.3 * abs(math.log10(tk / 298.15)):      # a third of what taking the moles at 25 C instead of T would do; measured on the unchanged tree: 6e-3 at 470 K;      # trace gases (H2, O2, CH4 of a water without a redox couple) float
                    return Result(VIOLATED, key="C19/equilibrate-not-at-equilibrium", what="%s: SI(%s) = %.8f in solution 1, %.8f after reacting solution 1 with the gas phase that -equilibrate made from it (%.2f K, V %s)" % (
                        case["id"], g_, a_, b_, tk, "fixed"), sample=dict(id=case["id"], info=info))
    gases = info["gases"]
    findings, sigs = [], set()
    nchk = 0
    sample = dict(id=case["id"], info=info)
    if info["mode"] == "eqphase":
      import numpy
      for g in gases:
        tgt = info.get("targets", {g: info["target"]})[g]
        si, phi, n = d.get("si:%s" % g), d.get("phi:%s" % g), d.get("equi:%s" % g)
        if si is None or phi is None or n is None:
            return Result(INCONCLUSIVE, reason="read-outs missing")
        if n > 0:
            par, a_sum, b_sum, a2 = mixture(db, {g: 1.0}, tk)
            P = 10.0 ** tgt
            if three_real_roots(a_sum, b_sum, P, tk):
                return Result(INCONCLUSIVE, reason="three real roots (two-phase region)")
            nchk += 1
            sigs.add("eqphase|%s|present|%s" % (g, info.get("company") or "alone"))
            if abs(si - (tgt + math.log10(phi))) > 1e-6:
                findings.append(("C19/eqphase-fugacity", "%s in EQUILIBRIUM_PHASES at target log p %.3f, %.1f K: SI = %.9f, target + log10(PR_PHI) = %.9f (phi %.8f)" % (
                    g, tgt, tk, si, tgt + math.log10(phi), phi)))
            # the coefficient itself, from the equation of state of the pure gas at that pressure (the molar volume is the gas root of the cubic)
            if math.isfinite(a_sum) and b_sum > 0 and P >= 0.01:
                rts = numpy.roots([P, P * b_sum - R * tk, a_sum - 3 * P * b_sum ** 2 - 2 * R * tk * b_sum, P * b_sum ** 3 + R * tk * b_sum ** 2 - a_sum * b_sum])
                real = sorted(z.real for z in rts if abs(z.imag) < 1e-9 * max(1.0, abs(z.real)) and z.real > b_sum * (1 + 1e-9))
                if len(real) == 1 and 0.016 <= real[0] <= 1e4:
                    vm_ = real[0]
                    rz = P * vm_ / (R * tk)
                    A_ = a_sum * P / (R * tk) ** 2
                    B_ = b_sum * P / (R * tk)
                    if rz > B_:
                        lnphi = (rz - 1) - math.log(rz - B_) - A_ / (2.0 * math.sqrt(2.0) * B_) * math.log((rz + (1 + math.sqrt(2.0)) * B_) / (rz - (math.sqrt(2.0) - 1) * B_))
                        if -4.6 < lnphi < 4.44:
                            nchk += 1
                            if abs(math.exp(lnphi) - phi) > 1e-5 * max(phi, 1e-3):
                                findings.append(("C19/eqphase-phi", "%s: %s held at %.6g atm, %.2f K in EQUILIBRIUM_PHASES (with %s): PR_PHI = %.9g, the Peng-Robinson equation of the pure gas gives %.9g" % (
                                    case["id"], g, P, tk, info.get("company") or "nothing else", phi, math.exp(lnphi))))
        else:
            sigs.add("eqphase|%s|absent" % g)
      if True:
        pass
    else:
        n = {g: d.get("n:%s" % g) for g in gases}
        if any(v is None for v in n.values()):
            return Result(INCONCLUSIVE, reason="read-outs missing")
        ntot = sum(n.values())
        P, vm = d.get("gas_p"), d.get("gas_vm")
        if ntot <= 1e-9 or not P:
            # absent gas phase (only legitimate under fixed pressure)
            sigs.add("%s|absent" % info["mode"])
            if info["mode"] == "fixed_p" and info["P"] <= 2.0:
                s_ = sum(10.0 ** d["si:%s" % g] for g in gases if d.get("si:%s" % g, -999) > -90)
                nchk += 1
                if s_ > info["P"] * 1.03:
                    findings.append(("C19/absent-but-oversaturated", "fixed-pressure gas phase (%.4g atm) is absent although the fugacities of its components sum to %.6g atm" % (info["P"], s_)))

        else:
            x = {g: n[g] / ntot for g in gases}
            if vm is None or vm > 2400 or P < 0.01:
                # below the quantifier's range (0.01 atm); the engine clamps V_m of a fixed-volume phase to [0.016, 1e4] L/mol as a numerical guard
                return Result(INCONCLUSIVE, reason="pressure below 0.01 atm")
            par, a_sum, b_sum, a2 = mixture(db, x, tk)
            if b_sum <= 0 or vm == 0:
                return Result(INCONCLUSIVE, reason="the gases present carry no critical constants (ideal-gas branch, no molar volume reported)")
            if three_real_roots(a_sum, b_sum, P, tk):
                return Result(INCONCLUSIVE, reason="three real roots (two-phase region)")
            # (1) EOS
            nchk += 1
            if vm <= b_sum:
                findings.append(("C19/eos/vm-below-b", "molar volume %.6g L/mol is not above the co-volume %.6g" % (vm, b_sum)))
            else:
                p_eos = R * tk / (vm - b_sum) - a_sum / (vm * vm + 2 * b_sum * vm - b_sum * b_sum)
                if p_eos <= 0 or three_real_roots(a_sum, b_sum, p_eos, tk):
                    return Result(INCONCLUSIVE, reason="three real roots (two-phase region)")
                if abs(p_eos - P) > 1e-4 * P:
                    findings.append(("C19/eos/pressure/%s" % info["mode"], "%s at %.2f K, V_m = %.8g L/mol, x = %s: reported P = %.8g atm, Peng-Robinson from the database constants gives %.8g (relative %.2e)" % (
                        case["id"], tk, vm, {g: round(v, 5) for g, v in x.items()}, P, p_eos, abs(p_eos - P) / P)))
            if info["mode"] == "fixed_p":
                nchk += 1
                if abs(P - info["P"]) > 1e-8 * info["P"]:
                    findings.append(("C19/fixed-pressure-not-held", "fixed pressure %.8g atm, reported %.8g" % (info["P"], P)))
            col = d.get("pressure")
            if col is not None and abs(col - P) > 1e-9 * P:
                findings.append(("C19/readout/pressure", "-gases pressure column %.10g vs GAS_P %.10g" % (col, P)))
            # (2) partial pressures
            sp = 0.0
            for g in gases:
                pg = d["pp:%s" % g]
                sp += pg
                nchk += 1
                if abs(pg - x[g] * P) > 1e-6 * P:
                    findings.append(("C19/partial-pressure", "PR_P(%s) = %.10g, mole fraction x total pressure = %.10g" % (g, pg, x[g] * P)))
            if abs(sp - P) > 1e-6 * P:
                findings.append(("C19/partial-pressure-sum", "partial pressures sum to %.10g, total %.10g" % (sp, P)))
            # (3) fugacity coefficients, (4) fugacity = 10^SI
            rz = P * vm / (R * tk)
            A = a_sum * P / (R * tk) ** 2
            B = b_sum * P / (R * tk)
            clamp = False
            for g in gases:
                if x[g] <= 1e-8:
                    continue      # a component at the solver's floor: its coefficient is reported to 1e-6 only (thorough seed 9: 1.00000814 vs 1.00000687 at x = 1e-20)
                phi_rep = d["phi:%s" % g]
                if rz > B:
                    Br = par[g][1] / b_sum
                    lnphi = Br * (rz - 1) - math.log(rz - B) + A / (2.0 * math.sqrt(2.0) * B) * (Br - 2.0 * a2[g] / a_sum) * math.log((rz + (1 + math.sqrt(2.0)) * B) / (rz - (math.sqrt(2.0) - 1) * B))
                else:
                    lnphi = -4.6
                if lnphi > 4.44 or lnphi < -4.6:
                    clamp = True
                    lnphi = min(4.44, max(-4.6, lnphi))
                    nchk += 1
                    if not (0.0099 <= phi_rep <= 85.1):
                        findings.append(("C19/phi-clamp", "PR_PHI(%s) = %.6g outside the 0.01..85 clamp" % (g, phi_rep)))
                else:
                    nchk += 1
                    if abs(math.exp(lnphi) - phi_rep) > 1e-6 * max(phi_rep, 1e-3) + 2e-7:
                        findings.append(("C19/phi/%s" % ("pure" if len(gases) == 1 else "mixture"), "%s: PR_PHI(%s) = %.9g at P = %.6g atm, %.2f K, x = %s; Peng-Robinson mixture formula gives %.9g" % (
                            case["id"], g, phi_rep, P, tk, {k: round(v, 5) for k, v in x.items()}, math.exp(lnphi))))
                si = d.get("si:%s" % g)
                if si is not None and si > -90 and d["pp:%s" % g] > 1e-9 and x[g] > 1e-8:      # trace components sit at the solver's floor
                    nchk += 1
                    fug = phi_rep * d["pp:%s" % g]
                    if abs(10.0 ** si - fug) > 1e-4 * fug:      # the statement's relative 1e-4; redox-coupled gases converge to ~1e-5
                        findings.append(("C19/fugacity-vs-si", "%s: phi x p = %.9g atm for %s but 10^SI = %.9g" % (case["id"], fug, g, 10.0 ** si)))
            sigs.add("%s|%s|one-root|%s|present" % (info["mode"], "+".join(sorted(gases)), "clamp" if clamp else "noclamp"))
    stats = {"n_checks": nchk}
    if findings:
        k, w = findings[0]
        return Result(VIOLATED, key=k, what=w, findings=findings[1:], sigs=sigs, sample=sample, stats=stats)
    if nchk == 0:
        return Result(INCONCLUSIVE, reason="nothing checked")
    return Result(HELD, sigs=sigs, sample=sample, stats=stats)
