"""C18 - every reported inverse model is a genuine, admissible mole-balance model.

Monitor: inverse problems are built from forward simulations (an initial water, optionally a second water that is mixed in,
known transfers of 2-5 phases; the forward result is the final solution, so an exact model exists); INVERSE_MODELING is then run
with the true phases plus distractors, random constraints (dissolve / precipitate), global and per-element uncertainties,
-range, -minimal, -tolerance, -mineral_water, -multiple_precision.  The -inverse_modeling rows are read from the selected-output
*string* (13 digits; the value table cannot hold them, see C05's known finding); the totals of every solution are recorded in
the forward run; the printed Input/Delta tables are parsed as a second witness.
Oracle per reported model: mixing fractions >= 0; dissolve-only transfers >= 0, precipitate-only <= 0; every value inside its
reported [min, max]; for every element |c_final*a_f - sum a_i c_i - sum x_p nu_pe| <= a_f u_f c_f + sum a_i u_i c_i (interval
form of 'each adjustment within its declared uncertainty'); every printed |Delta| <= uncertainty * Input; with -minimal no
model's support (phases with non-zero transfer + solutions with non-zero fraction) strictly contains another model's support.
"""
import os
import re

from vlib import core, gens, dbparse
from vlib.core import Result, HELD, VIOLATED, INCONCLUSIVE
from props import c01

PROP = "C18"
FLAVOURS = ["opt"]
RULE = ("cases: seeded forward evolutions (1 or 2 initial waters of 4-7 elements, 2-5 true phases of {Halite, Gypsum, Calcite, Dolomite, CO2(g), Sylvite, Fluorite, Celestite, Barite, SiO2(a)} with "
        "transfers of +-0.05-2 mmol, second water mixed at 0.2-0.8) -> inverse problem with 0-5 distractor phases, random dissolve/precipitate constraints consistent or not with the truth, "
        "uncertainty 0.005-0.1 global + per-element overrides, -range, -minimal, -tolerance, -mineral_water, -multiple_precision. distinct & non-trivial = distinct reported models checked (problem id, support set)")
ASSUME = ["concentrations used in the interval check are the forward run's own totals (mol/kgw)", "the water produced or consumed by hydrated phases changes concentrations by < 1e-4 relative; the interval check carries that slack",
          "problems for which no model is reported (constraints contradict the truth) are inconclusive, not violations", "printed tables carry 4 significant digits: their check uses a 2e-3 relative slack"]

PHASES = {"Halite": {"Na": 1, "Cl": 1}, "Gypsum": {"Ca": 1, "S": 1}, "Calcite": {"Ca": 1, "C": 1}, "Dolomite": {"Ca": 1, "Mg": 2 * 0.5, "C": 2}, "CO2(g)": {"C": 1}, "Sylvite": {"K": 1, "Cl": 1},
          "Fluorite": {"Ca": 1, "F": 2}, "Celestite": {"Sr": 1, "S": 1}, "Barite": {"Ba": 1, "S": 1}, "SiO2(a)": {"Si": 1}, "Anhydrite": {"Ca": 1, "S": 1}, "Aragonite": {"Ca": 1, "C": 1}}
REACT_NAME = {"CO2(g)": "CO2", "SiO2(a)": "SiO2"}
ELEMS = ["Na", "K", "Ca", "Mg", "Cl", "S", "C", "F", "Sr", "Ba", "Si", "N"]
SOL_EL = {"S": "S(6)", "C": "C(4)"}


def gen_cases(ctx):
    n = ctx.params.get("cases") or (400 if ctx.tier == "quick" else 8000)
    for i in range(n):
        yield dict(id="inv%05d" % i, i=i)
    if not ctx.params.get("cases"):
        # the shipped isotope problem (example 18) and variants with the phase list / the isotope list in another order
        for k in range(6 if ctx.tier == "quick" else 40):
            yield dict(id="iso%03d" % k, i=k, kind="isotopes")


def water(r, num):
    f = gens.fmt
    conc = {"Na": gens.loguni(r, 0.2, 5), "Cl": gens.loguni(r, 0.2, 5), "C(4)": gens.loguni(r, 0.5, 4)}      # carbonate alkalinity gives the charge balance room to move
    for e in r.sample(["K", "Ca", "Mg", "S(6)", "Si", "Sr", "F"], r.randint(2, 4)):
        conc[e] = gens.loguni(r, 0.02, 2)
    zc = {"Na": 1, "K": 1, "Ca": 2, "Mg": 2, "Sr": 2}
    za = {"Cl": 1, "S(6)": 2, "C(4)": 1, "F": 1}
    excess = sum(conc[e] * z for e, z in zc.items() if e in conc) - sum(conc[e] * z for e, z in za.items() if e in conc)
    bal = "Cl" if excess > 0 else "Na"
    t = "SOLUTION %d\n temp 25\n pH %s\n units mmol/kgw\n" % (num, f(round(r.uniform(6.3, 8.3), 2)))
    for e, c in conc.items():
        t += " %s %s%s\n" % (e, f(c), " charge" if e == bal else "")
    return t, conc


def build(ctx, case):
    r = ctx.rng("inv", case["i"])
    f = gens.fmt
    nmix = r.choice([1, 1, 1, 2, 2, 3])          # number of initial waters
    # extrapolation problems: the final water evolves from water 1, but the inverse problem is offered water 3 and a 0.7/0.3 blend of 1 and 3 (saved as 4):
    # the only mole balance has fractions -0.43 / +1.43, which the non-negativity of mixing fractions must refuse
    extrap = r.random() < 0.04
    if extrap:
        nmix = 2
    two = nmix > 1
    true = r.sample(["Halite", "Gypsum", "Calcite", "Dolomite", "CO2(g)", "Sylvite", "Fluorite", "Celestite", "Barite", "SiO2(a)"], r.randint(2, 5))
    xfer = {}
    for p in true:
        amt = gens.loguni(r, 0.05, 2) * 1e-3
        xfer[p] = amt
    punch = "SELECTED_OUTPUT 2\n -reset false\n -state true\n -solution true\nUSER_PUNCH 2\n -headings " + " ".join(ELEMS) + "\n 10 PUNCH " + ", ".join('TOT("%s")' % e for e in ELEMS) + "\n"
    init = [1, 3, 4][:nmix]
    fwd = "KNOBS\n -convergence_tolerance 1e-12\n" + punch
    wconc = {}
    # one multi-water problem in three offers near-identical initial waters (each alone explains the final water within the smallest uncertainty):
    # with -minimal only single-water models may then be reported
    twins = two and not extrap and r.random() < 0.33
    for n_ in init:
        if twins and n_ != init[0]:
            t0_ = fwd[fwd.index("SOLUTION %d\n" % init[0]):]
            ph0 = re.search(r"(?m)^ pH (\S+)", t0_).group(1)
            wconc[n_] = {e_: c_ * (1 + r.uniform(-0.003, 0.003)) for e_, c_ in wconc[init[0]].items()}
            balel = re.search(r"(?m)^ (\S+) \S+ charge$", t0_).group(1)
            t_ = "SOLUTION %d\n temp 25\n pH %s\n units mmol/kgw\n" % (n_, ph0) + "".join(" %s %s%s\n" % (e_, f(c_), " charge" if e_ == balel else "") for e_, c_ in wconc[n_].items())
        else:
            t_, wconc[n_] = water(r, n_)
        fwd += t_
    fwd += "END\n"
    if extrap:
        fwd += "MIX 2\n 1 0.7\n 3 0.3\nSAVE solution 4\nEND\nUSE solution 1\n"
        alphas = {3: -0.3 / 0.7, 4: 1 / 0.7}
    elif two:
        w = [r.uniform(0.2, 0.8) for _ in init]
        alphas = {n_: round(x_ / sum(w), 2) for n_, x_ in zip(init, w)}
        alphas[init[-1]] = round(1 - sum(alphas[n_] for n_ in init[:-1]), 2)
        fwd += "MIX 1\n" + "".join(" %d %s\n" % (n_, f(alphas[n_])) for n_ in init)
    else:
        alphas = {1: 1.0}
        fwd += "USE solution 1\n"
    # hidden perturbation: charge-neutral salts that are not offered as phases move the final analysis by a fraction of (or beyond) the uncertainty
    hidden = {}
    pert = r.choice([None, None, 0.3, 0.8, 3.0])
    unc = r.choice([0.005, 0.01, 0.025, 0.05, 0.1])
    if pert:
        # only elements that every initial water carries can absorb an adjustment
        salts = {"KCl": {"K": 1, "Cl": 1}, "MgCl2": {"Mg": 1, "Cl": 2}, "Na2SO4": {"Na": 2, "S(6)": 1}, "NaF": {"Na": 1, "F": 1}, "SrCl2": {"Sr": 1, "Cl": 2}, "NaHCO3": {"Na": 1, "C(4)": 1},
                 "CaCl2": {"Ca": 1, "Cl": 2}, "MgSO4": {"Mg": 1, "S(6)": 1}, "K2SO4": {"K": 2, "S(6)": 1}}
        ok = sorted(k_ for k_, el in salts.items() if all(all(e_ in wconc[n_] for e_ in el) for n_ in init))
        for salt in r.sample(ok, min(len(ok), r.randint(1, 2))):
            lim = min(min(wconc[n_][e_] for n_ in init) / nu for e_, nu in salts[salt].items())      # mmol/kgw
            hidden[salt] = pert * unc * lim * 1e-3 * r.uniform(0.5, 1.0)
    fwd += "REACTION 1\n" + "".join(" %s %s\n" % (REACT_NAME.get(p, p), f(xfer[p])) for p in true) + "".join(" %s %s\n" % (k_, f(v_)) for k_, v_ in hidden.items()) + " 1 mol\nSAVE solution 2\nEND\n"
    # inverse problem
    cands = list(true)
    for p in r.sample([q for q in PHASES if q not in true], r.randint(0, 5)):
        cands.append(p)
    r.shuffle(cands)
    cons = {}
    for p in cands:
        w = r.random()
        if p in true:
            cons[p] = "dis" if w < 0.35 else (None if w < 0.95 else "pre")      # rarely contradicting the truth
        else:
            cons[p] = r.choice([None, None, "dis", "pre"])
    opts = dict(range=r.random() < 0.6, minimal=r.random() < 0.5, tol=r.choice([None, None, 1e-10, 1e-8]), mineral_water=r.choice([None, None, "false"]), mp=r.random() < 0.15)
    sols = ([3, 4] if extrap else init) + [2]
    inv = "SELECTED_OUTPUT 1\n -reset false\n -high_precision true\n -inverse_modeling true\nINVERSE_MODELING 1\n -solutions %s\n -uncertainty %s\n" % (" ".join(map(str, sols)), f(unc))
    if opts["range"]:
        inv += " -range\n"
    if opts["minimal"]:
        inv += " -minimal\n"
    if opts["tol"]:
        inv += " -tolerance %g\n" % opts["tol"]
    if opts["mineral_water"]:
        inv += " -mineral_water false\n"
    if opts["mp"]:
        inv += " -multiple_precision true\n"
    inv += " -phases\n" + "".join("  %s%s\n" % (p, (" " + cons[p]) if cons[p] else "") for p in cands)
    per = {}
    bal = ""
    # per-element overrides, also for the elements with several valence states (S, C: the override must reach S(6) and C(4)) and for the major ions
    for e in r.sample(["Mg", "K", "F", "Sr", "Ba", "Si", "S", "C", "Ca", "Cl", "Na"], r.randint(0, 4)):
        u = r.choice([0.005, 0.01, 0.05, 0.2])
        per[e] = u
        bal += "  %s %s\n" % (e, f(u))
    # elements that only occur in candidate phases must be listed under -balances
    extra = set(ELEMS)      # every element of the waters must take part in the balances, or the charge balance cannot close
    for p in cands:
        extra.update(PHASES[p])
    inv += " -balances\n" + bal + "".join("  %s %s\n" % (e, f(unc)) for e in sorted(extra) if e not in per)
    inv += "END\n"
    return fwd, inv, dict(extrap=extrap, two=two, hidden=hidden, pert=pert, true=true, xfer=xfer, alphas=alphas, unc=unc, per=per, cands=cands, cons=cons, opts=opts, sols=sols)


def cl1_records(path):
    """parse the binary log written by the cl1 hook (harness/vcore.h)"""
    import struct
    import numpy as np
    try:
        data = open(path, "rb").read()
    except OSError:
        return []
    recs, p = [], 0
    try:
        while p < len(data):
            t = data[p:p + 1]
            p += 1
            if t == b"P":
                k, l, m, n, chk = struct.unpack_from("<5i", data, p)
                p += 20
                tol, = struct.unpack_from("<d", data, p)
                p += 8
                klm = k + l + m
                M = np.frombuffer(data, dtype="<f8", count=klm * (n + 1), offset=p).reshape(klm, n + 1)
                p += 8 * klm * (n + 1)
                xs = np.frombuffer(data, dtype="<f8", count=n, offset=p)
                p += 8 * n
                rs = np.frombuffer(data, dtype="<f8", count=klm, offset=p)
                p += 8 * klm
                recs.append(dict(k=k, l=l, m=m, n=n, chk=chk, tol=tol, M=M, xs=xs, rs=rs))
            elif t == b"R" and recs:
                kode, = struct.unpack_from("<i", data, p)
                p += 4
                err, = struct.unpack_from("<d", data, p)
                p += 8
                r = recs[-1]
                r["x"] = np.frombuffer(data, dtype="<f8", count=r["n"], offset=p)
                p += 8 * r["n"]
                r["res"] = np.frombuffer(data, dtype="<f8", count=r["M"].shape[0], offset=p)
                p += 8 * r["M"].shape[0]
                r["kode"], r["err"] = kode, err
            else:
                break
    except (struct.error, ValueError):
        pass
    return [r for r in recs if "kode" in r]


def cl1_monitor(recs, nsol=0):
    """L1-solver monitor over the recorded problems of one INVERSE_MODELING run.
    min |b - A x|_1  s.t.  C x = d,  E x <= f,  sign constraints on x.  Checked without any LP solver:
      (1) a result returned with kode 0 satisfies C, E and the sign constraints to the solver's own acceptance (10 toler), evaluated in long double;
      (2) witness optimality: every point the solver itself returned (kode 0) for a problem with byte-identical C, d, E, f and sign constraints is feasible for
          all of them; a call whose objective is worse than that of such a witness, evaluated in its own objective, did not return the optimum;
      (3) a call that declares the constraints infeasible (kode 1) while such a witness exists is a false infeasibility.
    returns (events, stats); events are (kind, detail)"""
    import hashlib
    import numpy as np
    L = np.longdouble
    ev, groups = [], {}
    st = dict(cl1_calls=len(recs), cl1_feasible_results=0, cl1_groups_with_witness=0, cl1_witness_comparisons=0)
    for i, r in enumerate(recs):
        k, l, m, n = r["k"], r["l"], r["m"], r["n"]
        M = r["M"]
        r["A"], r["b"], r["C"], r["d"], r["E"], r["f"] = M[:k, :n].astype(L), M[:k, n].astype(L), M[k:k + l, :n].astype(L), M[k:k + l, n].astype(L), M[k + l:, :n].astype(L), M[k + l:, n].astype(L)
        h = hashlib.sha1()
        h.update(("%d,%d,%d|" % (l, m, n)).encode())
        h.update(np.ascontiguousarray(M[k:, :]).tobytes())
        h.update(np.sign(r["xs"]).tobytes())
        r["grp"] = h.hexdigest()
        groups.setdefault(r["grp"], []).append(i)

    def viol(r, x):
        x = x.astype(L)
        v = 0.0
        if r["l"]:
            v = max(v, float(np.abs(r["C"] @ x - r["d"]).max()))
        if r["m"]:
            v = max(v, float((r["E"] @ x - r["f"]).max()))
        for j in range(r["n"]):
            if r["xs"][j] < 0:
                v = max(v, float(x[j]))
            elif r["xs"][j] > 0:
                v = max(v, float(-x[j]))
        return v

    def obj(r, x):
        return float(np.abs(r["b"] - r["A"] @ x.astype(L)).sum())

    for i, r in enumerate(recs):
        if r["kode"] == 0:
            v = viol(r, r["x"])
            r["viol"] = v
            if v <= 20 * r["tol"]:
                st["cl1_feasible_results"] += 1
            elif v <= 1e3 * r["tol"]:
                pass        # cl1 accepts on its own residual vector (10 toler); a recomputed residual a little above that is neither a witness nor an event
            else:
                big = float(np.abs(r["x"][nsol:]).max()) if r["n"] > nsol else 0.0      # columns after the mixing fractions: transfers and adjustments, all << 0.1 mol in these problems
                ev.append(("cl1-unbounded-direction" if big > 0.1 else "cl1-inexact-result", ("(largest |x| %.1e) " % big if big > 0.1 else "") + "cl1 call %d (k=%d l=%d m=%d n=%d, toler %g) returned kode 0 but its x violates a constraint by %.3e" % (i, r["k"], r["l"], r["m"], r["n"], r["tol"], v)))
    for g, idx in groups.items():
        wit = [i for i in idx if recs[i]["kode"] == 0 and recs[i].get("viol", 1) <= 20 * recs[i]["tol"]]
        if not wit or len(idx) < 2:
            continue
        st["cl1_groups_with_witness"] += 1
        for i in idx:
            r = recs[i]
            if np.any(r["rs"][:r["k"]] != 0):
                continue
            if r["kode"] == 1:
                ev.append(("cl1-false-infeasible", "cl1 call %d declared the constraints infeasible, but the point returned by call %d for the same constraints satisfies them (%.1e)" % (i, wit[0], recs[wit[0]]["viol"])))
                continue
            if r["kode"] != 0:
                continue
            mine = obj(r, r["x"])
            for w in wit:
                if w == i:
                    continue
                st["cl1_witness_comparisons"] += 1
                o = obj(r, recs[w]["x"])
                # a range problem (k = 1) measures the gap in units of the ranged variable
                gap = mine - o
                if r["k"] == 1:
                    j = int(np.argmax(np.abs(r["A"][0])))
                    ref = max(abs(float(r["x"][j])), abs(float(recs[w]["x"][j])))
                    thr = 1e-7 * ref + 1e-11
                else:
                    thr = 1e-6 * max(abs(mine), abs(o)) + 1e-9
                if gap > thr:
                    ev.append(("cl1-suboptimal" if gap > 1e3 * thr else "cl1-suboptimal-marginal", "cl1 call %d (k=%d) returned kode 0 with objective %.12g; the point returned by call %d is feasible for the same constraints and gives %.12g" % (i, r["k"], mine, w, o)))
                    break
    return ev, st


def run_isotopes(ctx, case):
    """example 18 (13C and 34S balances): every printed adjustment of a phase's isotopic composition lies within the uncertainty declared for it on the -phases line,
    in the shipped order and with the -isotopes list and the -phases lines reordered (variant 0 is the example as shipped)"""
    from vlib import examples
    text = examples.text(ctx.repo, "ex18")
    r = ctx.rng("iso", case["i"])
    lines = text.split("\n")
    # locate the -isotopes and -phases option blocks of INVERSE_MODELING
    def block(opt):
        a = next(i for i, l in enumerate(lines) if l.strip().lower().startswith(opt))
        b = a + 1
        while b < len(lines) and lines[b].strip() and not lines[b].strip().startswith("-") and not lines[b].strip().upper().startswith(("END", "PHASES", "EXCHANGE", "SELECTED")):
            b += 1
        return a, b
    ia, ib = block("-isotopes")
    pa, pb = block("-phases")
    if case["i"] > 0:
        iso = lines[ia + 1:ib]
        r.shuffle(iso)
        ph = lines[pa + 1:pb]
        r.shuffle(ph)
        lines[pa + 1:pb] = ph        # (indices of the first block are unaffected: -isotopes comes first)
        lines[ia + 1:ib] = iso
    declared = {}
    for l in lines[pa + 1:pb]:
        w = l.split()
        if not w:
            continue
        rest = w[1:]
        if rest and rest[0] in ("dis", "pre", "dissolve", "precipitate"):
            rest = rest[1:]
        for j in range(0, len(rest) - 2, 3):
            try:
                declared[(rest[j], w[0])] = (float(rest[j + 1]), float(rest[j + 2]))
            except ValueError:
                pass
    cwd = ctx.scratch(case["id"])
    s = core.Script()
    s.raw("new a")
    s.raw("loaddb a " + examples.db(ctx.repo, "ex18"))
    s.raw("set a OutputStringOn 1")
    s.run("a", "\n".join(lines))
    s.raw("snap a oe")
    run = core.run_vdrive(ctx.bin("opt"), s.bytes(), cwd, timeout=120)
    if core.process_failure(run):
        return Result(INCONCLUSIVE, reason="process failure")
    rr, sn = core.rets(run, "run"), core.rets(run, "snap")
    if not rr or rr[0].get("r") != 0 or not sn:
        return Result(INCONCLUSIVE, reason="isotope problem reports errors")
    out = sn[0]["output"].get("text", "")
    nchk, findings, sigs = 0, [], set()
    for mm in re.finditer(r"(?m)^\s+(\S+)\s+(\S+)\s+([-+0-9.eE]+)\s+\+\s+([-+0-9.eE]+)\s+=\s+([-+0-9.eE]+)\s*(?:\*\*)?\s*$", out):      # the engine marks a row it knows to be outside with '**'
        isot, phase, inp, dl = mm.group(1), mm.group(2), float(mm.group(3)), float(mm.group(4))
        if (isot, phase) not in declared:
            continue
        val, unc_ = declared[(isot, phase)]
        nchk += 1
        sigs.add("isotope|%s|%s" % (isot, phase))
        if abs(dl) > unc_ * 1.0001 + 1e-5:
            findings.append(("C18/isotope-adjustment", "%s: %s of %s is adjusted by %g, declared %g +- %g" % (case["id"], isot, phase, dl, val, unc_)))
    if findings:
        return Result(VIOLATED, key=findings[0][0], what=findings[0][1], findings=findings[1:], sigs=sigs, sample=dict(id=case["id"], variant=case["i"], rows=nchk), stats={"n_checks": nchk})
    if not nchk:
        return Result(INCONCLUSIVE, reason="no isotope rows in the output")
    return Result(HELD, sigs=sigs, sample=dict(id=case["id"], variant=case["i"], rows=nchk), stats={"n_checks": nchk})


def run_case(ctx, case):
    if case.get("kind") == "isotopes":
        return run_isotopes(ctx, case)
    fwd, inv, info = build(ctx, case)
    cwd = ctx.scratch(case["id"])
    s = core.Script()
    s.raw("new a")
    s.raw("loaddb a " + os.path.join(ctx.db, "phreeqc.dat"))
    s.raw("set a OutputStringOn 1")
    s.raw("cur a 1")
    s.raw("set a SelectedOutputStringOn 1")
    s.run("a", fwd)
    s.raw("snap a se")
    s.raw("cl1log %s 4000" % os.path.join(cwd, "cl1.bin"))
    s.run("a", inv)
    s.raw("cl1log -")
    s.raw("snap a seow")
    run = core.run_vdrive(ctx.bin("opt"), s.bytes(), cwd, timeout=300)
    if core.process_failure(run):
        return Result(INCONCLUSIVE, reason="process failure / watchdog")
    rr, sn = core.rets(run, "run"), core.rets(run, "snap")
    if len(rr) < 2 or rr[0].get("r") != 0:
        return Result(INCONCLUSIVE, reason="forward simulation fails")
    if rr[1].get("r") != 0:
        et = sn[1]["error"].get("text", "").strip().split("\n")[0]
        return Result(INCONCLUSIVE, reason="inverse run reports: " + " ".join(et.split())[:50])
    # concentrations of the solutions from the forward run (user number 2 table)
    conc = {}
    for so in sn[0]["selout"]:
        if so["n"] != 2:
            continue
        hd = [c[1] for c in so["cells"][0]]
        for row in so["cells"][1:]:
            d = {h: (float(c[1]) if c[0] in "dl" else c[1]) for h, c in zip(hd, row)}
            num = int(d.get("soln", -1))
            if d.get("state") == "i_soln":
                conc[num] = {e: d.get(e, 0.0) for e in ELEMS}
        # the last row is the reaction (or mix + reaction) step whose result was saved as solution 2
        last = {h: (float(c[1]) if c[0] in "dl" else c[1]) for h, c in zip(hd, so["cells"][-1])}
        conc[2] = {e: last.get(e, 0.0) for e in ELEMS}
        if info["extrap"] and len(so["cells"]) >= 3:
            blend = {h: (float(c[1]) if c[0] in "dl" else c[1]) for h, c in zip(hd, so["cells"][-2])}
            conc[4] = {e: blend.get(e, 0.0) for e in ELEMS}
    if not all(k in conc for k in info["sols"]):
        return Result(INCONCLUSIVE, reason="solution totals not recorded")
    # model rows from the string of user number 1
    so1 = [so for so in sn[1]["selout"] if so["n"] == 1]
    if not so1:
        return Result(INCONCLUSIVE, reason="no selected output for the inverse run")
    lines = [l for l in so1[0]["string"].split("\n") if l.strip()]
    if len(lines) < 2:
        # no model at all.  When the final water was made from the offered waters by the offered phases alone (no hidden salt, no extrapolation) and no
        # constraint contradicts the transfers that were made, the truth itself is a model with every adjustment at zero: one must be reported
        truth_ok = (not info["extrap"]) and (not info["pert"]) and all(info["cons"].get(p_) != "pre" for p_ in info["true"])
        if truth_ok:
            out_ = sn[1]["output"].get("text", "")
            noisy_ = ("Roundoff errors" in out_) or ("Error in subroutine range" in out_) or ("Roundoff errors in minimal" in sn[1].get("warning", {}).get("text", ""))
            cev_, _ = cl1_monitor(cl1_records(os.path.join(cwd, "cl1.bin")), len(info["sols"]))
            kinds_ = sorted(set(k_.replace("-marginal", "") for k_, _w in cev_))
            order_ = ["cl1-unbounded-direction", "cl1-inexact-result", "cl1-false-infeasible", "cl1-suboptimal"]
            why_ = "solver-reported-roundoff" if noisy_ else (min(kinds_, key=order_.index) if kinds_ else "clean-run")
            return Result(VIOLATED, key="C18/no-model-for-the-truth/" + why_,
                          what="%s: no model reported although solution %s was made from solution(s) %s by %s alone, every one of them offered with a compatible constraint (%s), options %s" % (
                              case["id"], info["sols"][-1], info["sols"][:-1], {p_: info["xfer"].get(p_) for p_ in info["true"]} if "xfer" in info else info["true"],
                              {k_: v_ for k_, v_ in info["cons"].items() if v_}, info["opts"]),
                          sample=dict(id=case["id"], true_phases=info["true"], candidates=info["cands"], options=info["opts"]))
        return Result(INCONCLUSIVE, reason="no model reported (constraints may contradict the truth)")
    hd = [x.strip() for x in lines[0].split("\t")]
    models = []
    for l in lines[1:]:
        vals = [x.strip() for x in l.split("\t")]
        if len(vals) < len(hd) - 1:
            continue
        try:
            models.append({h: float(v) for h, v in zip(hd, vals) if h and v})
        except ValueError:
            continue
    if not models:
        return Result(INCONCLUSIVE, reason="no model rows parsed")
    findings, sigs = [], set()
    sols, unc, per = info["sols"], info["unc"], info["per"]
    final = sols[-1]
    nchk = 0
    supports = []
    stol = 10 * (info["opts"]["tol"] or 1e-10)      # the solver accepts sign and constraint residuals up to 10 x -tolerance
    for mi, m in enumerate(models):
        alpha = {n: m.get("Soln_%d" % n) for n in sols}
        if any(v is None for v in alpha.values()):
            continue
        x = {p: m.get(p, 0.0) for p in info["cands"]}
        tag = "%s model %d" % (case["id"], mi + 1)
        for n, a in alpha.items():
            nchk += 1
            if a < -stol:
                findings.append(("C18/negative-fraction", "%s: mixing fraction of solution %d is %.6e" % (tag, n, a)))
        for p, v in x.items():
            nchk += 1
            if info["cons"][p] == "dis" and v < -stol:
                findings.append(("C18/constraint/dissolve", "%s: %s is dissolve-only but its transfer is %.6e" % (tag, p, v)))
            if info["cons"][p] == "pre" and v > stol:
                findings.append(("C18/constraint/precipitate", "%s: %s is precipitate-only but its transfer is %.6e" % (tag, p, v)))
        if info["opts"]["range"]:
            for k in list(alpha.items()) + list(x.items()):
                name = ("Soln_%d" % k[0]) if isinstance(k[0], int) else k[0]
                lo, hi, v = m.get(name + "_min"), m.get(name + "_max"), m.get(name)
                if lo is None or hi is None:
                    continue
                nchk += 1
                sl = 1e-6 * max(abs(lo), abs(hi), abs(v)) + stol      # the solver accepts constraint residuals of 10 x toler (1e-9): ranges are exact to about that
                if v < lo - sl or v > hi + sl:
                    findings.append(("C18/outside-range/" + ("mp" if info["opts"]["mp"] else "cl1"), "%s: %s = %.10g outside its reported range [%.10g, %.10g]" % (tag, name, v, lo, hi)))
        # interval mole balance
        for e in ELEMS:
            ue = per.get(e, unc)
            cf = conc[final][e]
            lhs = alpha[final] * cf
            rhs = sum(alpha[n] * conc[n][e] for n in sols[:-1]) + sum(x[p] * PHASES[p].get(e, 0.0) for p in info["cands"])
            slack = ue * (abs(alpha[final]) * cf + sum(abs(alpha[n]) * conc[n][e] for n in sols[:-1])) + 1e-4 * max(cf, 1e-9) + (len(sols) + 1) * stol
            nchk += 1
            if abs(lhs - rhs) > slack * 1.0001:
                findings.append(("C18/mole-balance", "%s: element %s: final %.8g vs mixed initial + phase transfers %.8g; difference %.3e exceeds what the uncertainties (%.3g) allow (%.3e)" % (
                    tag, e, lhs, rhs, lhs - rhs, ue, slack)))
        sup = frozenset([p for p, v in x.items() if abs(v) > 0] + ["S%d" % n for n, a in alpha.items() if abs(a) > 0])
        supports.append(sup)
        sigs.add("%s|%s" % (case["id"], ",".join(sorted(sup))))
    if info["opts"]["minimal"]:
        for i_, a in enumerate(supports):
            for j_, b_ in enumerate(supports):
                if i_ != j_ and a < b_:
                    nchk += 1
                    findings.append(("C18/not-minimal", "%s: with -minimal model %d (%s) strictly contains model %d (%s)" % (case["id"], j_ + 1, sorted(b_), i_ + 1, sorted(a))))
    # printed Input / Delta tables
    out = sn[1]["output"].get("text", "")
    for mm in re.finditer(r"(?m)^\s+(\S+)\s+([-+0-9.eE]+)\s+\+\s+([-+0-9.eE]+)\s+=\s+([-+0-9.eE]+)\s*$", out):
        name, inp, dl = mm.group(1), float(mm.group(2)), float(mm.group(3))
        if name in ("pH",):
            continue
        base = name.split("(")[0]
        ue = per.get(base, unc)
        nchk += 1
        if name == "Alkalinity":
            continue
        if abs(dl) > ue * abs(inp) * 1.002 + 10 * stol and abs(inp) > 0:
            findings.append(("C18/printed-delta", "%s: printed adjustment of %s is %.4e for an input of %.4e: beyond the uncertainty %.3g" % (case["id"], name, dl, inp, ue)))
            break
    # a run in which the engine itself printed that its L1 solver lost the problem to round-off is keyed apart: what it reports next to
    # that message is an open known finding (see known_findings.json); a violation in a run without any such message is a different one
    noisy = ("Roundoff errors" in out) or ("Error in subroutine range" in out) or ("Roundoff errors in minimal" in sn[1].get("warning", {}).get("text", ""))
    recs = cl1_records(os.path.join(cwd, "cl1.bin"))
    cev, cst = cl1_monitor(recs, len(info["sols"]))
    kinds = sorted(set(k.replace("-marginal", "") for k, _ in cev))
    cev = [(k, w) for k, w in cev if not k.endswith("-marginal")]      # gaps at the solver's own tolerance explain a range that is off by as much, but are not reported on their own
    order = ["cl1-unbounded-direction", "cl1-inexact-result", "cl1-false-infeasible", "cl1-suboptimal"]
    why = "solver-reported-roundoff" if noisy else (min(kinds, key=order.index) if kinds else "clean-run")
    findings = [(k + "/" + why, w) for k, w in findings]
    for k, w in cev:
        findings.append(("C18/solver/%s/%s" % (k, "reported" if noisy else "silent"), "%s: %s" % (case["id"], w)))
    stats = {"n_checks": nchk, "n_models": len(models), "runs_with_roundoff_message": 1 if noisy else 0}
    stats.update(cst)
    sample = dict(id=case["id"], extrapolation=info["extrap"], initial_waters=len(sols) - 1, hidden_perturbation=info["pert"], true_phases=info["true"], candidates=info["cands"], constraints={k: v for k, v in info["cons"].items() if v}, options=info["opts"], uncertainty=unc, models=len(models))
    if findings:
        k, w = findings[0]
        return Result(VIOLATED, key=k, what=w, findings=findings[1:], sigs=sigs, sample=sample, stats=stats)
    return Result(HELD, sigs=sigs, sample=sample, stats=stats)
