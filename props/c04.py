"""C04 - results depend only on the input text, not on how it is delivered or split.

Differential monitor: the same input is run (a) whole in one RunString call and (b) cut at a chosen
set of END boundaries into consecutive calls, each piece delivered by RunString, RunFile or
AccumulateLine+RunAccumulated.  Observed at the client boundary: every selected-output row of every
call, the final DUMP -all text, the component list and all return values.
"""
import json
import os
import re

from vlib import core, examples
from vlib.core import Result, HELD, VIOLATED, INCONCLUSIVE
from vlib import gens

PROP = "C04"
FLAVOURS = ["opt"]
RULE = ("inputs: shipped examples that run error-free plus seeded multi-simulation inputs; variants: all cut sets "
        "when the input has <=6 END boundaries, else random ones, each piece delivered by a random entry point; "
        "a case counts when it made >=2 calls and the uncut run produced >=1 data row; distinct = (input, cut set, delivery vector)")
ASSUME = ["the simulation counter (sim column, 'after simulation N' in dump descriptions) is excluded as the statement allows",
          "comparison is between two executions of the same binary; relative 1e-10 on numeric cells"]

DELIV = ["string", "file", "acc"]
DUMP_ALL = "DUMP\n -all\nEND\n"


def gen_cases(ctx):
    quick = ctx.tier == "quick"
    rng = ctx.rng("cases")
    names = [n for n in examples.TABLE if examples.TABLE[n][1] < (0.5 if quick else 5)]
    inputs = []
    for n in sorted(names):
        inputs.append(dict(kind="example", name=n))
    ngen = 24 if quick else 300
    for i in range(ngen):
        inputs.append(dict(kind="gen", name="gen%d" % i, gseed=rng.randrange(1 << 30)))
    for i in range(8 if quick else 80):
        inputs.append(dict(kind="late", name="late%d" % i, gseed=rng.randrange(1 << 30)))
    for i in range(8 if quick else 80):
        inputs.append(dict(kind="switch", name="switch%d" % i, gseed=rng.randrange(1 << 30)))
    for i in range(6 if quick else 60):
        inputs.append(dict(kind="spread", name="spread%d" % i, gseed=rng.randrange(1 << 30)))
    maxcuts = (10 if quick else 48)
    if ctx.params.get("cases"):
        maxcuts = max(1, ctx.params["cases"] // max(1, len(inputs)))
    cid = 0
    for inp in inputs:
        txt = _input_text(ctx, inp)[0]
        pieces = examples.split_simulations(txt)
        k = len(pieces)
        if k < 2:
            continue
        nb = k - 1
        r = ctx.rng("cuts", inp["name"])
        cutsets = set()
        if nb <= 6 and (1 << nb) - 1 <= maxcuts:
            for m in range(1, 1 << nb):
                cutsets.add(tuple(i for i in range(nb) if m >> i & 1))
        else:
            cutsets.add(tuple(range(nb)))            # cut everywhere
            tries = 0
            while len(cutsets) < maxcuts and tries < 10 * maxcuts:
                tries += 1
                p = r.choice([0.15, 0.5, 0.85])
                cs = tuple(i for i in range(nb) if r.random() < p)
                if cs:
                    cutsets.add(cs)
        for cs in sorted(cutsets):
            deliv = [r.choice(DELIV) for _ in range(len(cs) + 1)]
            cid += 1
            yield dict(id="%s-%d" % (inp["name"], cid), inp=inp, cuts=list(cs), deliv=deliv)


def late_definition_input(r):
    """SELECTED_OUTPUT / USER_PUNCH are defined once, in the first simulation, and name a phase, an aqueous species and an element that only later simulations
    add to the database (PHASES, SOLUTION_SPECIES, SOLUTION_MASTER_SPECIES), without repeating the SELECTED_OUTPUT block: the names must be resolved again
    whenever the model changes, wherever the call boundaries fall"""
    f = gens.fmt
    ph = r.choice(["MyHalite", "Zsalt", "Q_phase"])
    t = ("SELECTED_OUTPUT 1\n -reset false\n -pH true\n -si Calcite %s\n -equilibrium_phases %s Calcite\n -molalities NaCl Na+\n -activities NaCl\n -totals Tr Na\n"
         "USER_PUNCH 1\n -headings si_ud lm_ud tr\n -start\n 10 PUNCH SI(\"%s\"), LM(\"NaCl\"), TOT(\"Tr\")\n -end\n" % (ph, ph, ph))
    t += "SOLUTION 1\n pH %s\n Na %s\n Cl %s charge\n Ca %s\n C(4) %s\nEND\n" % (f(round(r.uniform(6, 8.5), 2)), f(gens.loguni(r, 1, 100)), f(gens.loguni(r, 1, 100)), f(gens.loguni(r, 0.1, 5)), f(gens.loguni(r, 0.1, 5)))
    defs = ["PHASES\n%s\n NaCl = Na+ + Cl-\n log_k %s\n" % (ph, f(round(r.uniform(-1, 1.5), 2))),
            "SOLUTION_SPECIES\nNa+ + Cl- = NaCl\n log_k %s\n" % f(round(r.uniform(-1.5, 0.5), 2)),
            "SOLUTION_MASTER_SPECIES\nTr Tr 0 Tr 100\nSOLUTION_SPECIES\nTr = Tr\n log_k 0\n"]
    r.shuffle(defs)
    cur = 1
    for k in range(r.randint(2, 5)):
        if defs and r.random() < 0.8:
            t += defs.pop()
        if "PHASES\n" + ph in t and r.random() < 0.7:
            t += "USE solution %d\nEQUILIBRIUM_PHASES %d\n %s 0 %s\n Calcite 0 %s\n" % (cur, k + 1, ph, f(gens.loguni(r, 0.01, 2)), f(r.choice([0, 0.01])))
        else:
            t += "USE solution %d\nREACTION %d\n NaCl 1\n %s mol\n" % (cur, k + 1, f(gens.loguni(r, 1e-3, 0.1)))
        if "Tr Tr 0" in t and r.random() < 0.5:
            t += "SOLUTION %d\n Tr %s\n Na 1\n Cl 1\n" % (20 + k, f(gens.loguni(r, 0.1, 10)))
        if r.random() < 0.5:
            cur += 1
            t += "SAVE solution %d\n" % cur
        t += "END\n"
    return t


def print_switch_input(r):
    """two or three SELECTED_OUTPUT numbers defined once; later simulations switch persistent options (PRINT -selected_output, SELECTED_OUTPUT -active, PRINT -reset,
    KNOBS) on and off between reactions without repeating the blocks: which rows exist must not depend on where the call boundaries fall"""
    f = gens.fmt
    t = "SOLUTION 1\n pH %s\n Na %s\n Cl %s charge\n Ca %s\n C(4) %s\n" % (f(round(r.uniform(6, 8.5), 2)), f(gens.loguni(r, 1, 50)), f(gens.loguni(r, 1, 50)), f(gens.loguni(r, 0.1, 5)), f(gens.loguni(r, 0.1, 5)))
    nums = sorted(r.sample([1, 2, 3, 5, 8], r.randint(2, 3)))
    cols = [" -pH true\n -totals Na\n", " -totals Cl Ca\n -ionic_strength true\n", " -molalities Na+ Cl-\n -alkalinity true\n", " -si Calcite\n -pe true\n"]
    for n in nums:
        t += "SELECTED_OUTPUT %d\n -reset false\n" % n + r.choice(cols)
        if r.random() < 0.3:
            t += "USER_PUNCH %d\n -headings mu\n 10 PUNCH MU\n" % n
        elif r.random() < 0.5:
            # BASIC memory: stored by the first simulation, read by every later one (PUT / GET / EXISTS outlive simulations and calls alike)
            t += "USER_PUNCH %d\n -headings stored known\n 10 IF EXISTS(7, %d) = 0 THEN PUT(TOT(\"Na\"), 7, %d)\n 20 PUNCH GET(7, %d), EXISTS(7, %d)\n" % (n, n, n, n, n)      # (SIM_NO restarts with every call: not usable as a once-only guard)
    t += "END\n"
    cur = 1
    for k in range(r.randint(3, 6)):
        w = r.random()
        if w < 0.45:
            t += "PRINT\n -selected_output %s\n" % r.choice(["false", "false", "true"])
        elif w < 0.6:
            t += "SELECTED_OUTPUT %d\n -active %s\n" % (r.choice(nums), r.choice(["false", "true"]))
        elif w < 0.7:
            t += "PRINT\n -reset %s\n" % r.choice(["false", "true"])
        elif w < 0.8:
            t += "KNOBS\n -iterations %d\n -step_size %d\n" % (r.choice([150, 200]), r.choice([10, 100]))
        t += "USE solution %d\nREACTION %d\n %s 1\n %s mmol\n" % (cur, k + 1, r.choice(["NaCl", "HCl", "NaOH", "CaCl2"]), f(gens.loguni(r, 0.05, 2)))
        if r.random() < 0.6:
            cur += 1
            t += "SAVE solution %d\n" % cur
        t += "END\n"
    return t


def spread_input(r):
    """tab-delimited SOLUTION_SPREAD blocks whose rows may begin with an empty cell (a leading tab), lines with leading and trailing blanks, blank lines and
    comment lines: the text must mean the same through RunString, RunFile and AccumulateLine"""
    f = gens.fmt
    cols = r.sample(["Ca", "Na", "Cl", "K", "Mg", "S(6)", "C(4)"], r.randint(3, 5)) + ["pH"]
    r.shuffle(cols)
    t = "SELECTED_OUTPUT 1\n -reset false\n -solution true\n -pH true\n -totals Ca Na Cl K Mg S(6) C(4)\n"
    t += "SOLUTION_SPREAD\n -units mmol/kgw\n" + "\t".join(cols) + "\n"
    nrow = r.randint(2, 4)
    for k in range(nrow):
        cells = []
        for j, c in enumerate(cols):
            if c == "pH":
                cells.append(f(round(r.uniform(6, 8.5), 2)))
            elif j == 0 and r.random() < 0.6:
                cells.append("")                      # the row starts with a tab
            elif r.random() < 0.15:
                cells.append("")
            else:
                cells.append(f(gens.loguni(r, 0.05, 5)))
        t += "\t".join(cells) + "\n"
    t += "END\n"
    for k in range(r.randint(2, 4)):
        lead = r.choice(["", " ", "\t", "   "])
        t += "%sUSE solution %d   \n# comment %d\n\n%sREACTION %d\n\t%s 1\n  %s mmol\n" % (lead, r.randint(1, nrow), k, lead, k + 1, r.choice(["NaCl", "HCl", "CaCl2"]), f(gens.loguni(r, 0.05, 2)))
        if r.random() < 0.5:
            t += "SAVE solution %d\n" % r.randint(1, nrow)
        t += "END\n"
    return t


def _input_text(ctx, inp):
    if inp["kind"] == "spread":
        return spread_input(ctx.rng("spread", inp["gseed"])), os.path.join(ctx.db, "phreeqc.dat")
    if inp["kind"] == "switch":
        return print_switch_input(ctx.rng("switch", inp["gseed"])), os.path.join(ctx.db, "phreeqc.dat")
    if inp["kind"] == "example":
        return examples.text(ctx.repo, inp["name"]), examples.db(ctx.repo, inp["name"])
    if inp["kind"] == "late":
        return late_definition_input(ctx.rng("late", inp["gseed"])), os.path.join(ctx.db, "phreeqc.dat")
    return gens.multi_sim_input(ctx.rng("gen", inp["gseed"])), os.path.join(ctx.db, "phreeqc.dat")


def _script(cwd, dbpath, calls):
    """calls: list of (delivery, text)"""
    s = core.Script()
    s.raw("new a")
    s.raw("loaddb a " + dbpath)
    s.raw("set a SelectedOutputStringOn 0")
    s.raw("set a DumpStringOn 1")
    for i, (d, txt) in enumerate(calls):
        s.raw("tag call%d" % i)
        if d == "string":
            s.run("a", txt)
        elif d == "file":
            fn = os.path.join(cwd, "piece%d.pqi" % i)
            with open(fn, "w", encoding="latin-1") as f:
                f.write(txt)
            s.raw("runfile a " + fn)
        else:
            s.raw("acc a " + s.text(txt))
            s.raw("runacc a")
        s.raw("snap a sec")      # the component list is read after every call as well (a cached list must be refreshed by every later call that changes it)
    s.raw("tag final")
    s.raw("snap a c")
    s.run("a", DUMP_ALL)
    s.raw("snap a d")
    s.raw("del a")
    return s.bytes()


def _history(run):
    """returns (rets, rows per user number, components, dump text)"""
    rets, rows, comps, dump = [], {}, None, None
    errs = []
    for r in run["records"]:
        if r.get("ev") != "ret":
            continue
        tag = r.get("tag", "")
        if r["op"] in ("run", "runfile", "runacc") and tag.startswith("call"):
            rets.append(r.get("r"))
        if r["op"] == "acc" and r.get("r"):
            rets.append("acc-failed")
        if r["op"] == "snap" and tag.startswith("call"):
            if r["error"].get("text"):
                errs.append(r["error"]["text"])
            for so in r["selout"]:
                cells = so.get("cells") or []
                if not cells:
                    continue
                heads = [c[1] if c[0] == "s" else None for c in cells[0]]
                for row in cells[1:]:
                    m = []
                    for h, c in zip(heads, row):
                        if h is None or h == "sim" or c[0] == "x":
                            continue
                        m.append((h, c[0], c[1] if len(c) > 1 else None))
                    rows.setdefault(so["n"], []).append(sorted(m, key=lambda t: (t[0], str(t[2]))))
        if r["op"] == "snap" and tag == "final":
            if "components" in r:
                comps = r["components"]
            if "text" in r.get("dump", {}):
                dump = r["dump"]["text"]
    return rets, rows, comps, dump, errs


def _mask_dump(t):
    return re.sub(r"after simulation \d+\.?", "after simulation N.", t or "")


def _has_zero_column_block(text):
    """a SELECTED_OUTPUT block that names no column (and does not say -reset true)"""
    blocks = re.split(r"(?mi)^\s*SELECTED_OUTPUT\b", text)[1:]
    for b in blocks:
        body = []
        for ln in b.split("\n")[1:]:
            t = ln.strip()
            if not t:
                continue
            if not t.startswith("-"):
                break
            body.append(t.lower())
        if not any(x.startswith("-reset") and "true" in x for x in body):      # under IPhreeqc every column switch is off unless the block turns it on
            cols = [x for x in body if not x.startswith(("-reset", "-high", "-file", "-user_punch", "-active")) and not x.endswith("false")]
            if not cols:
                return True
    return False


def _cmp_rows(a, b):
    """returns (ok, detail, bitwise_equal_rows)"""
    if sorted(a) != sorted(b):
        return False, "user numbers differ: %s vs %s" % (sorted(a), sorted(b)), 0
    bit = 0
    for n in a:
        if len(a[n]) != len(b[n]):
            return False, "user %d: %d rows whole vs %d rows split" % (n, len(a[n]), len(b[n])), bit
        for i, (ra, rb) in enumerate(zip(a[n], b[n])):
            if ra == rb:
                bit += 1
                continue
            if [x[0] for x in ra] != [x[0] for x in rb]:
                return False, "user %d row %d: headings of filled cells differ: %s vs %s" % (
                    n, i, [x[0] for x in ra][:12], [x[0] for x in rb][:12]), bit
            for (h, ta, va), (_, tb, vb) in zip(ra, rb):
                if ta in ("d", "l") and tb in ("d", "l"):
                    fa, fb = float(va), float(vb)
                    if fa == fb or (fa != fa and fb != fb):
                        continue
                    if abs(fa - fb) <= 1e-10 * max(abs(fa), abs(fb)):
                        continue
                    return False, "user %d row %d col %s: %s (whole) vs %s (split)" % (n, i, h, va, vb), bit
                elif (ta, va) != (tb, vb):
                    return False, "user %d row %d col %s: %s/%s (whole) vs %s/%s (split)" % (n, i, h, ta, va, tb, vb), bit
    return True, "", bit


def run_case(ctx, case):
    cwd = ctx.scratch(case["id"])
    txt, dbpath = _input_text(ctx, case["inp"])
    pieces = examples.split_simulations(txt)
    exe = ctx.bin("opt")
    out = {}
    calls_split, cur = [], ""
    cuts = set(case["cuts"])
    for i, p in enumerate(pieces):
        cur += p
        if i in cuts or i == len(pieces) - 1:
            calls_split.append(cur)
            cur = ""
    variants = {"whole": [("string", txt)], "split": list(zip(case["deliv"], calls_split))}
    for vname, calls in variants.items():
        d = os.path.join(cwd, vname)
        os.makedirs(d)
        if case["inp"]["kind"] == "example":
            examples.stage_includes(ctx.repo, case["inp"]["name"], d)
        run = core.run_vdrive(exe, _script(d, dbpath, calls), d, timeout=120)
        pf = core.process_failure(run)
        if pf:
            if pf[0] == "timeout":
                return Result(INCONCLUSIVE, reason="watchdog (%s)" % vname)
            if pf[0] == "harness":
                return Result(INCONCLUSIVE, reason="harness: " + pf[2][:200])
            return Result(VIOLATED, key="C04/%s" % pf[1], what="%s run of %s ended abnormally: %s" % (vname, case["inp"]["name"], pf[2][:1500]))
        out[vname] = _history(run)
    wr, wrows, wcomp, wdump, werr = out["whole"]
    sr, srows, scomp, sdump, serr = out["split"]
    if any(wr) or wdump is None:
        first = (werr[0].strip().split("\n")[0] if werr else "?")[:60]
        return Result(INCONCLUSIVE, reason="uncut run has errors: " + first)
    name = case["inp"]["name"]
    sample = dict(input=name, pieces=len(pieces), cuts=case["cuts"], deliveries=case["deliv"][:len(calls_split)],
                  calls=len(calls_split), rows={str(k): len(v) for k, v in wrows.items()})
    nrows = sum(len(v) for v in wrows.values())
    sigs = []
    if len(calls_split) >= 2 and nrows >= 1:
        sigs = ["%s|%s|%s" % (name, case["cuts"], case["deliv"][:len(calls_split)])]
    if any(sr):
        return Result(VIOLATED, key="C04/split-run-error/%s" % case["inp"]["kind"],
                      what="%s: uncut run is error-free but split run returned %s (cuts %s, deliveries %s): %s" % (name, sr, case["cuts"], case["deliv"], (serr or ["?"])[0][:300]),
                      sample=sample)
    ok, detail, bit = _cmp_rows(wrows, srows)
    if not ok:
        kind_ = case["inp"]["kind"]
        if "rows whole vs" in detail and _has_zero_column_block(wtext if "wtext" in dir() else _input_text(ctx, case["inp"])[0]):
            kind_ = "zero-column-block"      # C05's open finding (a block without columns counts no rows) seen through the row counts of a split run
        return Result(VIOLATED, key="C04/rows-differ/%s" % kind_,
                      what="%s cuts=%s deliveries=%s: %s" % (name, case["cuts"], case["deliv"], detail), sample=sample)
    if _mask_dump(wdump) != _mask_dump(sdump):
        la, lb = _mask_dump(wdump).split("\n"), _mask_dump(sdump).split("\n")
        diff = next(((i, x, y) for i, (x, y) in enumerate(zip(la, lb)) if x != y), (min(len(la), len(lb)), "<end>", "<end>"))
        return Result(VIOLATED, key="C04/final-dump-differs/%s" % case["inp"]["kind"],
                      what="%s cuts=%s: final DUMP differs at line %d: %r (whole) vs %r (split)" % (name, case["cuts"], diff[0], diff[1], diff[2]),
                      sample=sample)
    if wcomp != scomp:
        return Result(VIOLATED, key="C04/components-differ/%s" % case["inp"]["kind"],
                      what="%s: component list %s (whole) vs %s (split)" % (name, wcomp, scomp), sample=sample)
    return Result(HELD, sigs=sigs, sample=sample,
                  stats={"n_rows_compared": nrows, "n_rows_bitwise_equal": bit, "n_calls": len(calls_split),
                         "set_deliveries": sorted(set(case["deliv"][:len(calls_split)])), "n_dump_bytes": len(wdump)})
