"""C05 - selected-output table, string, lines and file describe the same data.

Monitor: vdrive (asan+ubsan build) records, for every defined user number, the full value table
(type + %.17g), the string, every line accessor result (incl. -1 and count), the file on disk and the
switch states; plus the same cells and out-of-range accesses through the C++ method, the C function,
GetSelectedOutputValue2 and the Fortran-binding glue.  The oracle below relates the views.
"""
import math
import os

from vlib import core, gens
from vlib.core import Result, HELD, VIOLATED, INCONCLUSIVE

PROP = "C05"
FLAVOURS = ["asan"]
RULE = ("cases: seeded inputs with 0-4 SELECTED_OUTPUT blocks (random user numbers, option subsets, high_precision, reset) "
        "and USER_PUNCH programs (numbers/strings, fewer/more values than headings, occasional duplicate headings) over multi-row "
        "base runs (reaction steps, kinetics, advection, inverse modelling); random per-number string/file switches and current number; "
        "non-trivial = at least one table with >=1 data row was cross-checked; distinct = (option set, high_precision, #blocks, punch pattern, switch vector)")
ASSUME = ["SELECTED_OUTPUT blocks are defined once per call (no mid-call redefinition), so string lines and table rows correspond one to one",
          "text cell must equal the table value rendered by one of the engine's print formats (%12.4e %20.12e %15.4e %12g %12.4f %12.3f %12d %20d %Ns)",
          "duplicate headings and -inverse_modeling rows are known findings (see known_findings.json)"]

VR_OK, VR_INVALIDARG, VR_INVALIDROW, VR_INVALIDCOL = 0, -3, -4, -5
TT_EMPTY, TT_ERROR, TT_LONG, TT_DOUBLE, TT_STRING = 0, 1, 2, 3, 4
NOTSET = "GetSelectedOutputString: SelectedOutputStringOn not set.\n"

INVERSE = """SOLUTION 1
 pH 6.2
 Na 0.134
 K 0.028
 Ca 0.078
 Mg 0.029
 Si 0.273
 Cl 0.014
 S(6) 0.010
 Alkalinity 0.328
SOLUTION 2
 pH 6.8
 Na 0.259
 K 0.040
 Ca 0.260
 Mg 0.071
 Si 0.410
 Cl 0.030
 S(6) 0.025
 Alkalinity 0.895
INVERSE_MODELING 1
 -solutions 1 2
 -uncertainty 0.025
 -range
 -phases
  Halite
  Gypsum
  Kaolinite precip
  Ca-montmorillonite precip
  CO2(g)
  Calcite
  Chalcedony precip
  Biotite dissolve
  Plagioclase dissolve
 -balances
  Ca 0.05 0.025
PHASES
Biotite
 KMg3AlSi3O10(OH)2 + 6H+ + 4H2O = K+ + 3Mg+2 + Al(OH)4- + 3H4SiO4
 log_k 0.0
Plagioclase
 Na0.62Ca0.38Al1.38Si2.62O8 + 5.52 H+ + 2.48H2O = 0.62Na+ + 0.38Ca+2 + 1.38Al+3 + 2.62H4SiO4
 log_k 0.0
"""


def _base(rng):
    kind = rng.choice(["react", "react", "kin", "adv", "eq", "inverse", "mixed"])
    if kind == "react":
        return kind, gens.solution(rng, 1) + gens.reaction(rng, 1, steps="%s mmol in %d steps" % (gens.fmt(gens.loguni(rng, 0.5, 5)), rng.randint(2, 6)))
    if kind == "kin":
        return kind, gens.solution(rng, 1) + gens.RATE_SIMPLE + gens.kinetics(rng, 1)
    if kind == "adv":
        cells = rng.randint(2, 5)
        return kind, gens.solution(rng, "0-%d" % (cells + 1), elements=["Na", "Cl", "K", "N(5)", "Ca"]) + gens.transport_block(rng, cells, shifts=rng.randint(2, 4))
    if kind == "eq":
        return kind, gens.solution(rng, 1, elements=["Na", "Cl", "Ca", "C(4)", "S(6)"]) + gens.eq_phases(rng, 1) + gens.reaction(rng, 1, steps="1 2 3 mmol")
    if kind == "inverse":
        return kind, INVERSE
    return kind, gens.solution(rng, 1) + gens.solution(rng, 2) + "END\nUSE solution 1\n" + gens.reaction(rng, 1) + "END\nMIX 1\n 1 0.5\n 2 0.5\n"


def _user_punch(rng, num, dup):
    n = rng.randint(1, 6)
    delta = rng.choice([0, 0, 0, -1, 1, 2]) if n > 1 else 0
    nh = max(0, n + delta)
    heads = ["u%d_%d" % (num, i) for i in range(nh)]
    if dup and nh >= 2:
        heads[rng.randrange(1, nh)] = heads[0]
    lines = ["USER_PUNCH %d" % num]
    if heads:
        lines.append(" -headings " + " ".join(heads))
    lines.append(" -start")
    exprs = ['TOT("Na")', 'MOL("Cl-")', '-LA("H+")', "MU", "TC", "STEP_NO", "CELL_NO", "1/3", "1e-30", "123456789", "-7.5e120",
             "0", "2^0.5*1e-5", 'TOT("water")', "SIM_TIME"]
    pat = []
    for i in range(n):
        if rng.random() < 0.25:
            word = "s%d" % rng.randint(0, 999)
            if rng.random() < 0.6:
                word = (word + "_abcdefghijklmnopqrstuvwxyz0123456789")[:rng.choice([5, 11, 12, 13, 16, 19, 20, 21, 30])]      # around the 12- and 20-character field widths
            lines.append(' %d PUNCH "%s"' % (10 * (i + 1), word))
            pat.append("s")
        elif rng.random() < 0.15:
            lines.append(' %d PUNCH %s, "t%d", %s' % (10 * (i + 1), rng.choice(exprs), i, rng.choice(exprs)))
            pat.append("nsn")
        else:
            lines.append(" %d PUNCH %s" % (10 * (i + 1), rng.choice(exprs)))
            pat.append("n")
    lines.append(" -end")
    return "\n".join(lines) + "\n", "".join(pat) + ("%+d" % delta)


def make_case(ctx, i):
    rng = ctx.rng("case", i)
    kind, base = _base(rng)
    nblocks = rng.choice([0, 1, 1, 2, 2, 3, 4])
    nums = sorted(rng.sample([1, 2, 3, 5, 7, 22, 100], nblocks))
    defs = ""
    shape = []
    dup = False
    for n in nums:
        hp = rng.random() < 0.4
        opts = rng.sample(gens.PUNCH_OPTS, rng.randint(0, 5))
        if rng.random() < 0.06:
            opts.append("-totals Na Ca Na")
            dup = True
        if kind == "inverse":
            opts.append("-inverse_modeling true")
        reset = rng.random() < 0.5
        blk = "SELECTED_OUTPUT %d\n" % n
        blk += " -file sel_%d.txt\n" % n
        if not reset:
            blk += " -reset false\n"
        if hp:
            blk += " -high_precision true\n"
        for o in opts:
            blk += " " + o + "\n"
        up = ""
        pat = "-"
        if rng.random() < 0.6:
            d = rng.random() < 0.05
            up, pat = _user_punch(rng, n, d)
            dup = dup or d
        defs += blk + up
        shape.append((tuple(sorted(o.split()[0] for o in opts)), hp, reset, pat))
    # definitions go in front of the first simulation so that no block is redefined during the call
    text = defs + base
    if not text.rstrip().endswith("END"):
        text += "END\n"
    # switches
    sw = {}
    for n in nums + ([rng.choice([4, 9])] if rng.random() < 0.3 else []):
        sw[n] = (rng.random() < 0.7, rng.random() < 0.5)
    cur = rng.choice(nums + [1, 1, 50]) if nums else rng.choice([1, 3])
    return dict(id="c%04d" % i, text=text, nums=nums, switches={str(k): v for k, v in sw.items()}, current=cur, kind=kind,
                shape=repr(shape), dup=dup, nblocks=nblocks)


def gen_cases(ctx):
    n = ctx.params.get("cases") or (300 if ctx.tier == "quick" else 5000)
    for i in range(n):
        yield make_case(ctx, i)


# ------------------------------------------------------------------------------------------ oracle
def _renderings_double(s):
    d = float(s)
    out = set()
    for f in ("%12.4e", "%20.12e", "%15.4e", "%12g", "%12.4f", "%12.3f", "%20.12g", "%12.3e", "%.4e", "%.12e", "%12.6e"):
        try:
            out.add((f % d).strip().lower().replace("-nan", "nan"))
        except (OverflowError, ValueError):
            pass
    if d == int(d) and abs(d) < 1e15:
        out.add("%d" % int(d))
    return out


def cell_matches(cell, text):
    t = text.strip()
    kind = cell[0]
    if kind == "x":
        return t == ""
    if kind == "s":
        v = cell[1].strip()
        return t == v      # strings are never truncated: up to the field width (12 / 20) they are padded, beyond it they are written in full
    if kind == "l":
        return t == str(int(cell[1]))
    if kind == "d":
        tl = t.lower().replace("-nan", "nan")
        if tl in _renderings_double(cell[1]):
            return True
        return False
    return False


def _head_match(text_h, tab_h):
    t = text_h.strip()
    return tab_h.strip() == t or (tab_h.startswith(t + "(") and tab_h.endswith(")"))


def check_text_against_table(so, text, label):
    """Relates a text view (string or file content) to the value table. returns list of (key, what).
    Lines are classified as heading lines (every cell names a table column) or data lines; a heading line
    fixes which table column each text column shows; data lines are matched one to one, in order, with
    table rows 1..RowCount-1."""
    probs = []
    rows, cols, cells = so["rows"], so["cols"], so["cells"]
    n = so["n"]
    lines = text.split("\n")
    if lines and lines[-1] == "":
        lines.pop()
    if cols == 0:
        if any(l.strip() for l in lines):
            probs.append(("rowcount", "%s of user %d has %d non-blank lines but the table has no columns" % (label, n, len(lines))))
        elif lines:
            probs.append(("rowcount/zero-column-block", "%s of user %d has %d blank lines for a block without columns; the table reports %d rows" % (label, n, len(lines), rows)))
        return probs
    heads = [c[1] if c[0] == "s" else "" for c in cells[0]] if rows else []
    suffix = ""
    mapping = None
    r = 1
    for i, line in enumerate(lines):
        parts = line.split("\t")
        if parts and parts[-1] == "":
            parts.pop()
        stripped = [p.strip() for p in parts]
        is_head = i == 0 or (len(parts) > 0 and all(any(_head_match(t, h) for h in heads) for t in stripped if t != "") and any(t for t in stripped)
                             and not all(_is_number(t) for t in stripped if t))
        if is_head:
            if len(set(stripped)) != len(stripped):
                suffix = "/dup-heading"
            if "Sum_resid" in stripped:
                suffix += "/inverse"
            used, mapping = set(), []
            for j, t in enumerate(stripped):
                k = next((k for k, h in enumerate(heads) if k not in used and _head_match(t, h)), None)
                if k is None:
                    probs.append(("heading" + suffix, "%s of user %d line %d: heading %r (text column %d) has no table column of its own; table headings %r"
                                  % (label, n, i, t, j, heads[:40])))
                    return probs
                used.add(k)
                mapping.append(k)
            continue
        if len(parts) == 0:
            # a blank line: a row in which the block punched nothing
            if r < rows and all(c[0] == "x" for c in cells[r]):
                r += 1
            elif not any(k == "rowcount/zero-column-block" for k, _ in probs):
                probs.append(("rowcount/zero-column-block", "%s of user %d line %d is blank (nothing punched) and the table has no row for it" % (label, n, i)))
            continue
        if r >= rows:
            probs.append(("rowcount" + suffix, "%s of user %d: data line %d (%r...) has no table row; table has %d rows incl. heading, text has %d lines"
                          % (label, n, i, line[:60], rows, len(lines))))
            return probs
        seen = set()
        for j, txt in enumerate(parts):
            if j < len(mapping):
                k = mapping[j]
            else:
                want = "no_heading_%d" % (j - len(mapping) + 1)
                k = next((k for k, h in enumerate(heads) if h == want), None)
                if k is None:
                    probs.append(("colcount" + suffix, "%s of user %d line %d has %d cells, its heading line %d; the table has no column %r for the extra cell"
                                  % (label, n, i, len(parts), len(mapping), want)))
                    return probs
            seen.add(k)
            if not cell_matches(cells[r][k], txt):
                probs.append(("cell" + suffix, "%s of user %d line %d text column %d (table row %d col %d %r): text %r is not a rendering of table value %r"
                              % (label, n, i, j, r, k, heads[k], txt, cells[r][k])))
                return probs
        for k in range(cols):
            if k not in seen and cells[r][k][0] != "x":
                probs.append(("colcount" + suffix, "%s of user %d line %d shows %d cells but table row %d also holds %r in column %d (%r)"
                              % (label, n, i, len(parts), r, cells[r][k], k, heads[k])))
                return probs
        r += 1
    if r != max(rows, 1):
        probs.append(("rowcount" + suffix, "%s of user %d has %d data lines but the table has %d data rows" % (label, n, r - 1, rows - 1)))
    return probs


def _is_number(t):
    try:
        float(t)
        return True
    except ValueError:
        return False


def run_case(ctx, case):
    cwd = ctx.scratch(case["id"])
    s = core.Script()
    s.raw("new a")
    s.raw("loaddb a " + os.path.join(ctx.db, "phreeqc.dat"))
    for n, (son, fon) in sorted(case["switches"].items(), key=lambda kv: int(kv[0])):
        s.raw("cur a %s" % n)
        s.raw("set a SelectedOutputStringOn %d" % son)
        s.raw("set a SelectedOutputFileOn %d" % fon)
    s.raw("cur a %d" % case["current"])
    s.raw("tag run")
    s.run("a", case["text"])
    s.raw("snap a sfegw")
    # second snap: must be identical (reading is not destructive)
    s.raw("tag again")
    s.raw("snap a sf")
    rng = ctx.rng("probe", case["id"])
    # cell probes through all bindings are issued after we know the shape: a generous fixed grid
    s.raw("tag probes")
    for n in case["nums"][:3]:
        s.raw("cur a %d" % n)
        for (r, c) in [(0, 0), (1, 0), (1, 1), (2, 1), (1, 2), (3, 3), (2, 5), (1, 7), (4, 2), (-1, 0), (0, -1), (9999, 0), (0, 9999), (1, 3), (2, 2)]:
            for api in "pcf":
                s.raw("call a %s GetSelectedOutputValue %d %d" % (api, r, c))
            s.raw("call a c GetSelectedOutputValue2 %d %d 100" % (r, c))
    s.raw("cur a -3")
    s.raw("cur a 987")
    for api in "pcf":
        s.raw("call a %s GetSelectedOutputValue 0 0" % api)
        s.raw("call a %s GetSelectedOutputRowCount" % api)
        s.raw("call a %s GetSelectedOutputColumnCount" % api)
    s.raw("tag after")
    s.raw("cur a %d" % case["current"])
    s.raw("snap a s")
    s.raw("del a")
    run = core.run_vdrive(ctx.bin("asan"), s.bytes(), cwd, timeout=180, flavour="asan")
    pf = core.process_failure(run)
    if pf:
        if pf[0] in ("timeout", "harness"):
            return Result(INCONCLUSIVE, reason="%s: %s" % (pf[0], (pf[2] or "")[:200]))
        return Result(VIOLATED, key="C05/%s" % pf[1], what="process ended abnormally (%s): %s" % (pf[0], pf[2][:2500]))
    recs = run["records"]
    runret = [r for r in recs if r["ev"] == "ret" and r["op"] == "run"]
    snaps = [r for r in recs if r["ev"] == "ret" and r["op"] == "snap"]
    if not runret or len(snaps) < 3:
        return Result(INCONCLUSIVE, reason="harness: incomplete log")
    if runret[0].get("r") != 0:
        first = (snaps[0]["error"].get("text") or "?").strip().split("\n")[0][:70]
        return Result(INCONCLUSIVE, reason="run failed: " + first)
    snap = snaps[0]
    findings = []

    def bad(key, what):
        findings.append(("C05/" + key, "%s [case %s kind=%s]" % (what, case["id"], case["kind"])))

    datarows = 0
    for so in snap["selout"]:
        n = so["n"]
        rows, cols, cells = so["rows"], so["cols"], so["cells"]
        dupnote = "/dup-heading" if case["dup"] else ""
        invnote = "/inverse" if case["kind"] == "inverse" else ""
        # --- table shape
        if rows > 0:
            if any(c[0] != "s" for c in cells[0]):
                bad("heading-type", "user %d: row 0 holds non-string cells %r" % (n, cells[0][:6]))
            heads = [c[1] for c in cells[0]]
        for r_i, row in enumerate(cells):
            if len(row) != cols:
                bad("ragged", "user %d row %d has %d cells, ColumnCount %d" % (n, r_i, len(row), cols))
            for c in row:
                if c[0] in ("E", "e", "?"):
                    bad("cell-error", "user %d: in-range cell returned %r" % (n, c))
        datarows += max(0, rows - 1)
        # --- string side
        son, fon = so["string_on"], so["file_on"]
        st = so["string"]
        want_on = case["switches"].get(str(n), (False, False))
        if bool(son) != bool(want_on[0]) or bool(fon) != bool(want_on[1]):
            bad("switch-readback", "user %d: switches set to %s but read back string_on=%s file_on=%s" % (n, want_on, son, fon))
        cur_sw = case["switches"].get(str(case["current"]), (False, False))[0]
        if son and st == "" and rows > 1 and not cur_sw:
            bad("string-switch-follows-current-number", "user %d: string switch on, %d table rows, but the string is empty (current number %d has its switch off)" % (n, rows, case["current"]))
        elif (not son) and st not in ("", NOTSET) and cur_sw:
            bad("string-switch-follows-current-number", "user %d: string switch off but the string holds %d bytes (current number %d has its switch on)" % (n, len(st), case["current"]))
        elif not son:
            if st not in ("", NOTSET):
                bad("string-switch", "user %d: string switch is off but the string holds %d bytes (current number %d)" % (n, len(st), case["current"]))
            if so["nlines"] != 0:
                bad("string-switch", "user %d: string switch is off but %d lines are reported" % (n, so["nlines"]))
        string_present = st not in ("", NOTSET)
        if son or string_present:
            ls = st.split("\n") if string_present else []
            if ls and ls[-1] == "":
                ls.pop()
            if ls != so["lines"] or so["nlines"] != len(ls):
                bad("lines-vs-string", "user %d: line accessors give %d lines, string has %d" % (n, so["nlines"], len(ls)))
            if so["line_m1"] != "" or so["line_pn"] != "":
                bad("line-oob", "user %d: line accessor outside 0..count-1 returned %r / %r" % (n, so["line_m1"], so["line_pn"]))
            if string_present or cur_sw:
                for k, w in check_text_against_table(so, st if string_present else "", "string"):
                    bad(k, w)
        f = so.get("file")
        if fon:
            if f is None:
                bad("file-missing", "user %d: file switch on but %s does not exist" % (n, so["file_name"]))
            else:
                if string_present and f["text"] != st:
                    bad("file-vs-string", "user %d: file (%d bytes) differs from string (%d bytes)" % (n, f["len"], len(st)))
                for k, w in check_text_against_table(so, f["text"], "file"):
                    bad(k, w)
        else:
            if f is not None and f["len"] > 0:
                bad("file-switch", "user %d: file switch is off but %s holds %d bytes" % (n, so["file_name"], f["len"]))
    # --- second snapshot equal
    for a, b in zip(snap["selout"], snaps[1]["selout"]):
        if a["th"] != b["th"] or a["sh"] != b["sh"]:
            bad("read-changes-state", "user %d: table or string changed between two consecutive read-outs" % a["n"])
    # --- probes through bindings
    tables = {so["n"]: so for so in snap["selout"]}
    curnum = None
    group = {}
    nprobe = 0
    for r in recs:
        if r.get("tag") != "probes":
            continue
        if r["ev"] == "call" and r["op"] == "cur":
            curnum = int(r["args"][0])
        if r["ev"] == "call" and r["op"] == "call":
            last_args = r["args"]
        if r["ev"] == "ret" and r["op"] == "call":
            api, fn = last_args[0], last_args[1]
            if fn in ("GetSelectedOutputValue", "GetSelectedOutputValue2"):
                row, col = int(last_args[2]), int(last_args[3])
                so = tables.get(curnum)
                nprobe += 1
                if curnum is not None and curnum < 0:
                    continue
                if so is None:
                    if r["r"] != VR_INVALIDARG:
                        bad("unknown-number", "GetSelectedOutputValue(%s) with undefined user number %s returned %s, expected VR_INVALIDARG" % (api, curnum, r["r"]))
                    continue
                rows, cols = so["rows"], so["cols"]
                if row < 0 or row >= rows:
                    exp_r, exp_t = VR_INVALIDROW, TT_ERROR
                elif col < 0 or col >= cols:
                    exp_r, exp_t = VR_INVALIDCOL, TT_ERROR
                else:
                    exp_r, exp_t = VR_OK, None
                if r["r"] != exp_r:
                    bad("oob-code", "%s(%s) user %d (%d,%d) in %dx%d table returned %s, expected %s" % (fn, api, curnum, row, col, rows, cols, r["r"], exp_r))
                    continue
                if exp_r != VR_OK:
                    if r.get("vt") != TT_ERROR:
                        bad("oob-vartype", "%s(%s) user %d (%d,%d): out-of-range access left VAR type %s, expected TT_ERROR" % (fn, api, curnum, row, col, r.get("vt")))
                    continue
                cell = so["cells"][row][col]
                tcode = {"x": TT_EMPTY, "l": TT_LONG, "d": TT_DOUBLE, "s": TT_STRING}[cell[0]]
                if fn == "GetSelectedOutputValue" and api in "pc":
                    got = (r["vt"], r["v"])
                    want = (tcode, None if cell[0] == "x" else cell[1])
                    if got != want:
                        bad("binding-mismatch", "GetSelectedOutputValue(%s) user %d (%d,%d) gave %r, table holds %r" % (api, curnum, row, col, got, want))
                else:
                    # Value2 and the Fortran glue: long is reported as double; strings copied; doubles as %23.15e text too
                    vt = r["vt"]
                    if cell[0] == "x":
                        ok = vt == TT_EMPTY
                    elif cell[0] == "l":
                        ok = vt == TT_DOUBLE and float(r["d"]) == float(cell[1]) and r["s"].strip() == cell[1]
                    elif cell[0] == "d":
                        a_, b_ = float(r["d"]), float(cell[1])
                        ok = vt == TT_DOUBLE and (a_ == b_ or (a_ != a_ and b_ != b_)) and r["s"].strip().replace("-nan", "nan") == ("%23.15e" % b_).strip().replace("-nan", "nan")
                    else:
                        ok = vt == TT_STRING and r["s"] == cell[1][:len(r["s"])] and (len(r["s"]) == len(cell[1]) or fn == "GetSelectedOutputValue2")
                        if api == "f" and r.get("flen") != len(cell[1]):
                            ok = False
                    if api == "f" and not r.get("pad_ok", 1):
                        ok = False
                    if not ok:
                        bad("binding-mismatch", "%s(%s) user %d (%d,%d) gave %r, table holds %r" % (fn, api, curnum, row, col, {k: r.get(k) for k in ("vt", "d", "s", "flen", "pad_ok")}, cell))
            elif fn in ("GetSelectedOutputRowCount", "GetSelectedOutputColumnCount"):
                so = tables.get(curnum)
                exp = 0 if so is None else (so["rows"] if "Row" in fn else so["cols"])
                if r["r"] != exp:
                    bad("count-binding", "%s(%s) with user number %s returned %s, expected %s" % (fn, api, curnum, r["r"], exp))
    # --- out-of-range probes must not change anything
    for a, b in zip(snap["selout"], snaps[2]["selout"]):
        if a["th"] != b["th"] or a["sh"] != b["sh"]:
            bad("probe-changes-table", "user %d: table or string changed after out-of-range / cross-binding probes" % a["n"])
    if len(snaps[2]["selout"]) != len(snap["selout"]):
        bad("probe-changes-table", "number of selected outputs changed after probes")
    sig = []
    if datarows > 0:
        sig = ["%s|%s|cur%s" % (case["shape"], sorted(case["switches"].items()), case["current"])]
    sample = dict(id=case["id"], kind=case["kind"], blocks=case["nblocks"], user_numbers=case["nums"], current=case["current"],
                  switches=case["switches"], tables=[(so["n"], so["rows"], so["cols"]) for so in snap["selout"]], input_head=case["text"][:300])
    stats = {"n_tables": len(snap["selout"]), "n_data_rows": datarows, "n_binding_probes": nprobe,
             "n_cells": sum(so["rows"] * so["cols"] for so in snap["selout"])}
    if findings:
        k, w = findings[0]
        return Result(VIOLATED, key=k, what=w, findings=findings[1:], sigs=sig, sample=sample, stats=stats,
                      replay={"case": case})
    return Result(HELD, sigs=sig, sample=sample, stats=stats)
