"""C16 - activity-coefficient models follow their defining equations and Gibbs-Duhem.

(a) ion-association databases: for seeded solutions every species' reported LG is compared with the model the database *text*
    assigns to it (parsed independently): Davies for charged species without parameters, 0.1*mu for uncharged ones,
    WATEQ/extended Debye-Hueckel for -gamma a b, B-dot for -llnl_gamma (A, B, B-dot interpolated from the database's own
    LLNL_AQUEOUS_MODEL_PARAMETERS table), the LLNL CO2 polynomial for -co2_llnl_gamma; evaluated at the reported MU, DH_A, DH_B (1e-9).
(b) Pitzer / SIT databases: along composition paths (single salts and mixtures, 1e-4 .. several molal, 0-100 C) the recorded
    LG of every solute species, OSMOTIC and LA(H2O) must satisfy the Gibbs-Duhem relation
        d[(phi - 1) * sum m] = sum m_s d ln(gamma_s)
    integrated over the path by the trapezoid rule (relative 1e-4), and a_w = exp(-M_w * phi * sum m) (1e-5).
"""
import math
import os

from vlib import core, gens, dbparse
from vlib.core import Result, HELD, VIOLATED, INCONCLUSIVE
from props import c01

PROP = "C16"
FLAVOURS = ["opt"]
RULE = ("cases: (ia) seeded solutions in phreeqc, wateq4f, llnl, Amm, minteq.v4 (thorough: + minteq, core10, Tipping_Hurley, phreeqc_rates): LG of every species whose elements are present; "
        "(gd) 1200-step composition paths of single salts and mixtures (NaCl, KCl, MgCl2, CaCl2, Na2SO4, MgSO4, NaBr; in pitzer.dat also NaCl+CO2 at pH 4.5, NaCl+B(OH)3, MgCl2+NaHCO3 at pH 8.3 for the neutral species) in pitzer, sit, frezchem, ColdChem at 0-100 C (Concrete_PZ.dat is an add-on that does not load alone). "
        "distinct & non-trivial = distinct (database, species, model) triples compared (ia) and distinct (database, salt system, temperature) paths (gd)")
ASSUME = ["A and B of the Debye-Hueckel terms are the engine's reported DH_A / DH_B (the statement says 'evaluated at the reported ... constants'); for LLNL databases they are interpolated from the database text and must also equal the reported ones",
          "charged species of an LLNL database that carry no -llnl_gamma use the dielectric-based A that BASIC does not report in that mode: skipped",
          "exchange and surface species are outside (a)", "Gibbs-Duhem paths are charge balanced so that the MacInnes scaling of single-ion coefficients cancels",
          "M_w = 0.0180153 kg/mol (1/55.50837)"]

DBS_IA_QUICK = ["phreeqc.dat", "wateq4f.dat", "llnl.dat", "Amm.dat", "minteq.v4.dat"]
DBS_IA_THOROUGH = DBS_IA_QUICK + ["minteq.dat", "core10.dat", "Tipping_Hurley.dat", "phreeqc_rates.dat"]
GD_DBS = {"pitzer.dat": ["NaCl", "KCl", "MgCl2", "CaCl2", "Na2SO4", "MgSO4", "NaBr", "NaCl+KCl", "NaCl+MgCl2", "NaCl+Na2SO4",
                         # paths that carry neutral aqueous species (CO2, B(OH)3, MgCO3): their molalities are part of the osmotic sum
                         "NaCl+CO2", "NaCl+B(OH)3", "MgCl2+NaHCO3"],
          "sit.dat": ["NaCl", "KCl", "CaCl2", "NaCl+KCl"],
          "frezchem.dat": ["NaCl", "KCl", "MgCl2", "Na2SO4"],
          "ColdChem.dat": ["NaCl", "KCl", "MgCl2"]
          }     # Concrete_PZ.dat is an add-on to pitzer.dat, not a loadable database
SALTS = {"NaCl": {"Na": 1, "Cl": 1}, "KCl": {"K": 1, "Cl": 1}, "MgCl2": {"Mg": 1, "Cl": 2}, "CaCl2": {"Ca": 1, "Cl": 2}, "Na2SO4": {"Na": 2, "S(6)": 1}, "MgSO4": {"Mg": 1, "S(6)": 1},
         "NaBr": {"Na": 1, "Br": 1}, "CO2": {"C(4)": 1}, "B(OH)3": {"B": 1}, "NaHCO3": {"Na": 1, "C(4)": 1}}
PH_FIXED = {"CO2": 4.5, "B(OH)3": 6.5, "NaHCO3": 8.3}      # pH is given and Cl takes the charge balance on these paths
MW = 0.0180153
LN10 = math.log(10.0)


def gen_cases(ctx):
    quick = ctx.tier == "quick"
    per = ctx.params.get("cases") or (60 if quick else 500)
    for dbn in (DBS_IA_QUICK if quick else DBS_IA_THOROUGH):
        for i in range(per):
            yield dict(id="ia-%s-%04d" % (dbn.split(".")[0], i), kind="ia", db=dbn, i=i)
    n = 0
    for dbn, systems in GD_DBS.items():
        for sysname in systems:
            temps = [25] if quick else [25, 0.5, 10, 40, 60, 90]
            if quick and n % 3 == 0:
                temps = [25, 60]
            for t in temps:
                n += 1
                yield dict(id="gd-%s-%s-%g" % (dbn.split(".")[0], sysname, t), kind="gd", db=dbn, system=sysname, temp=t)


def interp_llnl(db, tc):
    T = db.llnl.get("temperatures") or []
    if len(T) < 2 or tc < T[0] or tc > T[-1]:
        return None
    ifirst = max(i for i, t in enumerate(T) if tc >= t)
    ilast = min(i for i, t in enumerate(T) if tc <= t)
    f = 1.0 if ilast == ifirst else (tc - T[ifirst]) / (T[ilast] - T[ifirst])
    g = lambda k: (1 - f) * db.llnl[k][ifirst] + f * db.llnl[k][ilast]
    return g("dh_a"), g("dh_b"), g("bdot")


def model_lg(db, name, rx, z, mu, A, B, tk, llnl):
    """returns (model name, predicted log gamma) or (None, reason)"""
    sq = math.sqrt(mu)
    gm = rx.gmodel
    if name in ("e-", "H2O"):
        return "unit", 0.0
    if gm == "activity_water":
        return None, "activity_water species"
    if gm == "llnl":
        if llnl is None:
            return None, "no llnl table"
        a_l, b_l, bdot = llnl
        if z == 0:
            return "llnl-neutral", 0.0
        return "llnl-bdot", -a_l * sq * z * z / (1.0 + rx.llnl_gamma * b_l * sq) + bdot * mu
    if gm == "llnl_co2":
        c = db.llnl.get("co2_coefs")
        if not c or len(c) < 5:
            return None, "no co2 coefficients"
        return "llnl-co2", ((c[0] + c[1] * tk + c[2] / tk) * mu - (c[3] + c[4] * tk) * (mu / (mu + 1.0))) / LN10
    if db.llnl.get("temperatures") and z != 0 and gm != "wateq":
        return None, "davies species in an LLNL database"
    if gm == "wateq":
        if db.llnl.get("temperatures") and z != 0:
            return None, "wateq species in an LLNL database"
        a, b = rx.gamma
        return "wateq", -A * sq * z * z / (1.0 + a * B * sq) + b * mu
    if z == 0:
        return "neutral-0.1mu", 0.1 * mu
    return "davies", -z * z * A * (sq / (1.0 + sq) - 0.3 * mu)


def run_ia(ctx, case):
    db = c01.get_db(ctx, case["db"])
    r = ctx.rng("ia", case["db"], case["i"])
    prim = c01.primary_elements(db)
    common = [e for e in c01.COMMON if e in prim]
    els = []
    k = r.randint(2, 8)
    while len(els) < k:
        e = r.choice(common) if (r.random() < 0.85 and common) else r.choice(prim)
        if e not in els:
            els.append(e)
    temp = 25 if r.random() < 0.4 else round(r.uniform(1, 95), 1)
    lines = ["SOLUTION 1", " temp %s" % gens.fmt(temp), " pH %s" % gens.fmt(round(r.uniform(3, 11), 2)), " pe %s" % gens.fmt(round(r.uniform(-3, 13), 1)), " units mol/kgw"]
    for e in els:
        c = gens.loguni(r, 1e-7, 0.02) if (r.random() < 0.8 or e not in ("Na", "K", "Cl", "Ca", "Mg", "S", "N", "Li", "Br")) else gens.loguni(r, 0.02, 2.0)
        lines.append(" %s %s" % (e, gens.fmt(c)))
    have = set(els) | {"H", "O", "E"}
    sp = []
    for name, rx in db.species.items():
        try:
            es = set(db.composition(name))
        except ValueError:
            continue
        if es <= have:
            sp.append(name)
    if len(sp) > 500:
        r.shuffle(sp)
        sp = sp[:500]
    heads, progs, ln = [], [], [10]

    def punch(items):
        for i in range(0, len(items), 6):
            ch = items[i:i + 6]
            progs.append(" %d PUNCH %s" % (ln[0], ", ".join(x for _, x in ch)))
            heads.extend(h for h, _ in ch)
            ln[0] += 10
    punch([("TK", "TK"), ("MU", "MU"), ("DHA", "DH_A"), ("DHB", "DH_B")])
    for s_ in sp:
        punch([("LG:%s" % s_, 'LG("%s")' % s_), ("LM:%s" % s_, 'LM("%s")' % s_)])
    text = ("KNOBS\n -convergence_tolerance 1e-12\n -iterations 400\nSELECTED_OUTPUT 1\n -reset false\nUSER_PUNCH 1\n -headings " + " ".join(heads) + "\n -start\n" + "\n".join(progs) + "\n -end\n"
            + "\n".join(lines) + "\nEND\n")
    cwd = ctx.scratch(case["id"])
    s = core.Script()
    s.raw("new a")
    s.raw("loaddb a " + os.path.join(ctx.db, case["db"]))
    s.run("a", text)
    s.raw("snap a se")
    run = core.run_vdrive(ctx.bin("opt"), s.bytes(), cwd, timeout=120)
    if core.process_failure(run):
        return Result(INCONCLUSIVE, reason="process failure")
    rr, sn = core.rets(run, "run"), core.rets(run, "snap")
    if not rr or rr[0].get("r") != 0 or not sn or not sn[0]["selout"] or len(sn[0]["selout"][0]["cells"]) < 2:
        et = (sn[0]["error"].get("text", "") if sn else "").strip().split("\n")[0]
        return Result(INCONCLUSIVE, reason="run reports errors: " + " ".join(et.split())[:50])
    cells = sn[0]["selout"][0]["cells"]
    v = {h[1]: float(c[1]) for h, c in zip(cells[0], cells[1]) if c[0] in "dl"}
    tk, mu, A, B = v["TK"], v["MU"], v["DHA"], v["DHB"]
    llnl = interp_llnl(db, tk - 273.15) if db.llnl.get("temperatures") else None
    findings, sigs = [], set()
    worst, ncmp, skipped = 0.0, 0, {}
    if llnl is not None:
        if abs(llnl[0] - A) > 1e-12 or abs(llnl[1] - B) > 1e-12:
            findings.append(("C16/llnl-table-interpolation", "%s at %.2f C: reported DH_A=%.12g DH_B=%.12g, database table interpolates to %.12g %.12g" % (case["db"], tk - 273.15, A, B, llnl[0], llnl[1])))
    for s_ in sp:
        lg, lm = v.get("LG:%s" % s_), v.get("LM:%s" % s_)
        if lg is None or lm is None or lm < -90:
            continue
        z = dbparse.charge_of(s_)[1]
        model, pred = model_lg(db, s_, db.species[s_], z, mu, A, B, tk, llnl)
        if model is None:
            skipped[pred] = skipped.get(pred, 0) + 1
            continue
        ncmp += 1
        worst = max(worst, abs(lg - pred))
        sigs.add("%s|%s|%s" % (case["db"], s_, model))
        if abs(lg - pred) > 1e-9:
            findings.append(("C16/log-gamma/%s/%s" % (case["db"], model), "%s in %s (mu=%.6g, T=%.2f K, z=%g): LG=%.12f, model '%s' from the database text gives %.12f" % (
                s_, case["id"], mu, tk, z, lg, model, pred)))
            if len(findings) > 4:
                break
    stats = {"n_species_compared": ncmp, "worst_lg_diff": worst}
    sample = dict(id=case["id"], db=case["db"], elements=els, mu=mu, tk=tk, compared=ncmp, skipped=skipped)
    if findings:
        k, w = findings[0]
        return Result(VIOLATED, key=k, what=w, findings=findings[1:], sigs=sigs, sample=sample, stats=stats)
    if ncmp == 0:
        return Result(INCONCLUSIVE, reason="nothing compared")
    return Result(HELD, sigs=sigs, sample=sample, stats=stats)


def run_gd(ctx, case):
    db = c01.get_db(ctx, case["db"])
    parts = case["system"].split("+")
    r = ctx.rng("gd", case["id"])
    ratio = [1.0] + [round(r.uniform(0.2, 1.5), 2) for _ in parts[1:]]
    fixed_ph = next((PH_FIXED[p] for p in parts if p in PH_FIXED), None)
    if fixed_ph is not None:
        ratio = [1.0] + [round(r.uniform(0.05, 0.3), 3) for _ in parts[1:]]
    nstep = 1200
    mmax = {"pitzer.dat": 5.5, "sit.dat": 3.0, "frezchem.dat": 4.0, "ColdChem.dat": 4.0}[case["db"]]
    if any(p in ("Na2SO4", "MgSO4", "KCl", "CaCl2", "MgCl2") for p in parts) or fixed_ph is not None:
        mmax = min(mmax, 2.5)
    ms = [math.exp(math.log(1e-4) + i * (math.log(mmax) - math.log(1e-4)) / (nstep - 1)) for i in range(nstep)]
    els = {}
    for p, f in zip(parts, ratio):
        for e, n in SALTS[p].items():
            els[e] = els.get(e, 0.0) + n * f
    have = set(e.split("(")[0] for e in els) | {"H", "O", "E"}
    sp = [name for name in db.species if name not in ("H2O", "e-") and set(db.composition(name)) <= have]
    heads = ["TK", "OSM", "LAW", "MU"] + ["LG:%s" % s_ for s_ in sp] + ["LM:%s" % s_ for s_ in sp]
    prog = [' 10 PUNCH TK, OSMOTIC, LA("H2O"), MU']
    ln = 20
    for fn in ("LG", "LM"):
        for i in range(0, len(sp), 6):
            prog.append(" %d PUNCH %s" % (ln, ", ".join('%s("%s")' % (fn, s_) for s_ in sp[i:i + 6])))
            ln += 10
    text = "KNOBS\n -convergence_tolerance 1e-12\n -iterations 400\nSELECTED_OUTPUT 1\n -reset false\nUSER_PUNCH 1\n -headings " + " ".join(heads) + "\n -start\n" + "\n".join(prog) + "\n -end\n"
    for i, m in enumerate(ms):
        text += "SOLUTION %d\n temp %s\n pH %s\n units mol/kgw\n" % (i + 1, gens.fmt(case["temp"]), "7 charge" if fixed_ph is None else gens.fmt(fixed_ph))
        for e, n in els.items():
            text += " %s %.10g%s\n" % (e, n * m, " charge" if fixed_ph is not None and e == "Cl" else "")
    text += "END\n"
    cwd = ctx.scratch(case["id"])
    s = core.Script()
    s.raw("new a")
    s.raw("loaddb a " + os.path.join(ctx.db, case["db"]))
    s.run("a", text)
    s.raw("snap a se")
    run = core.run_vdrive(ctx.bin("opt"), s.bytes(), cwd, timeout=300)
    if core.process_failure(run):
        return Result(INCONCLUSIVE, reason="process failure")
    rr, sn = core.rets(run, "run"), core.rets(run, "snap")
    if not rr or rr[0].get("r") != 0 or not sn or not sn[0]["selout"]:
        et = (sn[0]["error"].get("text", "") if sn else "").strip().split("\n")[0]
        return Result(INCONCLUSIVE, reason="path does not run: " + " ".join(et.split())[:60])
    cells = sn[0]["selout"][0]["cells"]
    hd = [c[1] for c in cells[0]]
    rows = []
    for row in cells[1:]:
        rows.append({h: float(c[1]) for h, c in zip(hd, row) if c[0] in "dl"})
    if len(rows) < nstep:
        return Result(INCONCLUSIVE, reason="only %d of %d rows" % (len(rows), nstep))
    findings = []
    # a_w relation
    worst_aw = 0.0
    F, lng, mol = [], [], []
    for rw in rows:
        m_i = {s_: 10.0 ** rw["LM:%s" % s_] for s_ in sp if rw.get("LM:%s" % s_, -99) > -90}
        sm = sum(m_i.values())
        phi = rw["OSM"]
        aw_model = math.exp(-MW * phi * sm)
        aw = 10.0 ** rw["LAW"]
        worst_aw = max(worst_aw, abs(aw - aw_model) / aw)
        F.append((phi - 1.0) * sm)
        lng.append({s_: rw["LG:%s" % s_] * LN10 for s_ in m_i})
        mol.append(m_i)
    if worst_aw > 1e-5:
        findings.append(("C16/water-activity/%s" % case["db"], "%s: a_w differs from exp(-M_w*phi*sum m) by relative %.3e" % (case["id"], worst_aw)))
    lhs = F[-1] - F[0]
    rhs = 0.0
    for k in range(len(rows) - 1):
        for s_ in mol[k]:
            if s_ in mol[k + 1]:
                rhs += 0.5 * (mol[k][s_] + mol[k + 1][s_]) * (lng[k + 1][s_] - lng[k][s_])
    # relative to the variation of (phi-1)*sum m along the path (the net change can pass through zero)
    tv = sum(abs(F[k + 1] - F[k]) for k in range(len(F) - 1))
    rel = abs(lhs - rhs) / max(tv, 1e-12)
    if rel > 1e-4:
        findings.append(("C16/gibbs-duhem/%s" % case["db"], "%s (ratios %s): integral of sum m dln(gamma) = %.8g but (phi-1)*sum m changes by %.8g (relative %.3e) over %d steps up to %.3g molal" % (
            case["id"], ratio, rhs, lhs, rel, nstep, mmax)))
    sigs = {"gd|%s|%s|%g" % (case["db"], case["system"], case["temp"])}
    stats = {"worst_gd_rel": rel, "worst_aw_rel": worst_aw, "n_path_points": len(rows)}
    sample = dict(id=case["id"], species=sp, gd_lhs=lhs, gd_rhs=rhs, rel=rel, aw_rel=worst_aw)
    if findings:
        k, w = findings[0]
        return Result(VIOLATED, key=k, what=w, findings=findings[1:], sigs=sigs, sample=sample, stats=stats)
    return Result(HELD, sigs=sigs, sample=sample, stats=stats)


def run_case(ctx, case):
    return run_ia(ctx, case) if case["kind"] == "ia" else run_gd(ctx, case)
