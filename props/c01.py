"""C01 - speciation results satisfy the database's equilibrium and balance equations.

Monitor: for a seeded solution (initial solution row, then reaction / mineral-equilibration rows) a generated USER_PUNCH reads,
at full double precision from the value table, LA / LM / LG of every aqueous species of the loaded database whose elements are
present, SI / SR of every phase whose elements are present, TOT of every element, MU, CHARGE_BALANCE, mass of water, TK, pH, pe.
Oracle (Python, independent of the engine): the database *text* is parsed by vlib/dbparse.py; for every reaction the database
writes, sum(nu_i * log a_i) must equal log K(T) computed from the text (analytic expression, else van't Hoff from log_k/delta_h,
plus named expressions), |residual| <= 1e-9; element totals, charge balance and ionic strength must equal the stoichiometry-,
charge- and charge-squared-weighted sums of the species molalities (relative 1e-7); LA = LM + LG, pH = -LA(H+), pe = -LA(e-),
SI = log IAP - log K(T), SR = 10^SI.
"""
import math
import os

from vlib import core, gens, dbparse
from vlib.core import Result, HELD, VIOLATED, INCONCLUSIVE

PROP = "C01"
FLAVOURS = ["opt"]
RULE = ("cases: per database (quick: phreeqc, wateq4f, minteq.v4, llnl; thorough: + minteq, Amm, core10, iso, Tipping_Hurley, phreeqc_rates, sit and pitzer for mass action only) seeded solutions "
        "with 2-9 elements drawn from the database's master list, 1e-8..1 molal, pH 3-11, pe -4..14, 0-100 C, units mol/kgw | mmol/kgw | mg/L-free set, optional 'charge' on pH or an element, "
        "followed by a REACTION row and (when a listed mineral fits) an EQUILIBRIUM_PHASES row. distinct & non-trivial = distinct (database, reaction equation) and (database, phase) pairs whose "
        "residual was evaluated with every participating activity defined")
ASSUME = ["1 atm and 0-100 C only (no molar-volume pressure term)", "elements are entered as totals (no separately fixed valence states), so redox equations are required of every row",
          "identifiers in the database text are matched as the manual defines (abbreviations only after a leading '-')",
          "species the database defines twice are skipped (which definition wins is not specified)",
          "rows of runs that report an error are inconclusive", "physical constants are the manual's (R = 8.31470 J/K/mol, 4.184 J/cal)"]

DBS_QUICK = ["phreeqc.dat", "wateq4f.dat", "minteq.v4.dat", "llnl.dat"]
DBS_THOROUGH = DBS_QUICK + ["minteq.dat", "Amm.dat", "core10.dat", "iso.dat", "Tipping_Hurley.dat", "phreeqc_rates.dat", "sit.dat", "pitzer.dat"]
TOL_LOGK = 1e-9
TOL_REL = 1e-7
SKIP_ELEMENTS = {"H", "O", "E", "Alkalinity"}
COMMON = ["Na", "K", "Ca", "Mg", "Cl", "S", "C", "Si", "Al", "Fe", "Mn", "Ba", "Sr", "F", "Li", "Br", "B", "N", "P", "Zn", "Cd", "Pb", "Cu"]
_DBCACHE = {}


def get_db(ctx, name):
    if name not in _DBCACHE:
        _DBCACHE[name] = dbparse.DB(os.path.join(ctx.db, name))
    return _DBCACHE[name]


def primary_elements(db):
    return [e for e in db.elements if "(" not in e and e not in SKIP_ELEMENTS]


def gen_cases(ctx):
    dbs = DBS_QUICK if ctx.tier == "quick" else DBS_THOROUGH
    per = ctx.params.get("cases") or (60 if ctx.tier == "quick" else 600)
    for dbn in dbs:
        for i in range(per):
            yield dict(id="%s-%04d" % (dbn.split(".")[0], i), db=dbn, i=i)


def build_input(ctx, case, db):
    r = ctx.rng("sol", case["db"], case["i"])
    prim = primary_elements(db)
    common = [e for e in COMMON if e in prim]
    k = r.randint(2, 9)
    els = []
    while len(els) < k:
        e = r.choice(common) if (r.random() < 0.85 and common) else r.choice(prim)
        if e not in els:
            els.append(e)
    temp = r.choice([25, 25, 25]) if r.random() < 0.4 else round(r.uniform(0.5, 99), 1)
    ph = round(r.uniform(3, 11), 2)
    pe = round(r.uniform(-4, 14), 1)
    units = r.choice(["mol/kgw", "mmol/kgw", "umol/kgw", "mmol/L"])
    scale = {"mol/kgw": 1.0, "mmol/kgw": 1e3, "umol/kgw": 1e6, "mmol/L": 1e3}[units]
    charge_on = r.choice([None, None, "pH", "el"])
    lines = ["SOLUTION 1", " temp %s" % gens.fmt(temp), " pH %s%s" % (gens.fmt(ph), " charge" if charge_on == "pH" else ""), " pe %s" % gens.fmt(pe), " units %s" % units]
    chg_el = r.choice(els) if charge_on == "el" else None
    for e in els:
        c = gens.loguni(r, 1e-8, 0.02) if (r.random() < 0.85 or e not in ("Na", "K", "Cl", "Ca", "Mg", "S", "N", "Li", "Br")) else gens.loguni(r, 0.02, 1.5)
        lines.append(" %s %s%s" % (e, gens.fmt(c * scale), " charge" if e == chg_el else ""))
    if r.random() < 0.3:
        lines.append(" -water %s" % gens.fmt(r.choice([0.25, 0.5, 2.0, 7.5])))      # read-outs per kg of water and per solution differ only when the water mass is not 1 kg
    text = "\n".join(lines) + "\n"
    # species and phases whose elements are all present
    have = set(els) | {"H", "O", "E"}
    sp, ph_ = [], []
    unparsed = []
    for name, rx in db.species.items():
        try:
            es = set(db.composition(name))
        except ValueError:
            unparsed.append(name)          # a species the reader cannot decompose may hold any element: the sum checks are then skipped for this case
            continue
        if name == "e-":
            es = set()
        if es <= have:
            sp.append(name)
    for name, rx in db.phases.items():
        if not rx.terms or rx.bad:
            continue
        try:
            es = set(dbparse.parse_formula(dbparse.charge_of(rx.formula)[0]))
        except ValueError:
            continue
        if es <= have:
            ph_.append(name)
    if len(sp) > 420:
        sp = sorted(sp)
        r.shuffle(sp)
        keep = set(sp[:420]) | {"H+", "OH-", "H2O", "e-"}
        sp = [s for s in db.species if s in keep]
    if len(ph_) > 80:
        ph_ = r.sample(ph_, 80)
    heads, progs = [], []
    ln = [10]

    def punch(items):
        for i in range(0, len(items), 6):
            chunk = items[i:i + 6]
            progs.append(" %d PUNCH %s" % (ln[0], ", ".join(x for _, x in chunk)))
            heads.extend(h for h, _ in chunk)
            ln[0] += 10
    # iso.dat writes the proton as H3O+
    punch([("TK", "TK"), ("kgw", 'TOT("water")'), ("MU", "MU"), ("CB", "CHARGE_BALANCE"), ("negLAH", '-LA("%s")' % ("H+" if "H+" in db.species or "H3O+" not in db.species else "H3O+")), ("negLAe", '-LA("e-")'), ("LAw", 'LA("H2O")'), ("ALKB", "ALK")])
    punch([("TOT:%s" % e, 'TOT("%s")' % e) for e in els])
    for s in sp:
        punch([("LA:%s" % s, 'LA("%s")' % s), ("LM:%s" % s, 'LM("%s")' % s), ("LG:%s" % s, 'LG("%s")' % s)])
    for p in ph_:
        punch([("SI:%s" % p, 'SI("%s")' % p), ("SR:%s" % p, 'SR("%s")' % p)])
    sel = "SELECTED_OUTPUT 1\n -reset false\n -pH true\n -pe true\n -temperature true\n -alkalinity true\nUSER_PUNCH 1\n -headings " + " ".join(h.replace(" ", "_") for h in heads) + "\n -start\n" + "\n".join(progs) + "\n -end\n"
    knobs = "KNOBS\n -convergence_tolerance 1e-12\n -tolerance 1e-16\n -iterations 400\n"
    text = knobs + sel + text + "END\n"
    # a reaction row with reactants made of elements present
    reacts = [f for f, need in (("NaCl", {"Na", "Cl"}), ("HCl", {"Cl"}), ("NaOH", {"Na"}), ("CaCl2", {"Ca", "Cl"}), ("KCl", {"K", "Cl"}), ("MgSO4", {"Mg", "S"}), ("CO2", {"C"}),
                                     ("Na2SO4", {"Na", "S"}), ("H2O", set())) if need <= set(els)]
    rx = r.choice(reacts)
    text += "USE solution 1\nREACTION 1\n %s 1\n %s mol\nEND\n" % (rx, gens.fmt(gens.loguni(r, 1e-6, 1e-2)))
    mins = [p for p in ("Calcite", "Gypsum", "Quartz", "Barite", "Fluorite", "Halite", "Gibbsite") if p in ph_]
    if mins:
        text += "USE solution 1\nEQUILIBRIUM_PHASES 1\n %s 0 %s\nEND\n" % (r.choice(mins), gens.fmt(r.choice([0.0, 0.01])))
    case["unparsed"] = unparsed
    return text, heads, els, sp, ph_


def run_case(ctx, case):
    db = get_db(ctx, case["db"])
    text, heads, els, sp, phs = build_input(ctx, case, db)
    cwd = ctx.scratch(case["id"])
    s = core.Script()
    s.raw("new a")
    s.raw("loaddb a " + os.path.join(ctx.db, case["db"]))
    s.run("a", text)
    s.raw("snap a se")
    run = core.run_vdrive(ctx.bin("opt"), s.bytes(), cwd, timeout=120)
    pf = core.process_failure(run)
    if pf:
        return Result(INCONCLUSIVE, reason="%s: %s" % (pf[0], str(pf[1])[:80]))
    rr = core.rets(run, "run")
    sn = core.rets(run, "snap")
    if not rr or not sn or not sn[0]["selout"]:
        return Result(INCONCLUSIVE, reason="no table")
    if rr[0].get("r") != 0:
        et = sn[0]["error"].get("text", "").strip().split("\n")[0]
        return Result(INCONCLUSIVE, reason="run reports errors: " + " ".join(et.split())[:50])
    cells = sn[0]["selout"][0]["cells"]
    if len(cells) < 2:
        et = sn[0]["error"].get("text", "").strip().split("\n")[0][:60]
        return Result(INCONCLUSIVE, reason="no data row: " + et)
    hd = [c[1] for c in cells[0]]
    findings, sigs = [], set()
    nres, worst = 0, 0.0
    worst_sum = 0.0
    rows_ok = 0
    ncol_extra = len(hd) - len(heads)
    for ri, row in enumerate(cells[1:]):
        if len(row) != len(hd):
            continue
        v = {}
        for h, c in zip(hd, row):
            if c[0] in "dl":
                v[h] = float(c[1])
        g = lambda k: v.get(k.replace(" ", "_"))
        tk = g("TK")
        if tk is None:
            continue
        rows_ok += 1
        la = {}
        for s_ in sp:
            x = g("LA:%s" % s_)
            if x is not None and x > -90 and math.isfinite(x):
                la[s_] = x
        if g("LAw") is not None:
            la["H2O"] = g("LAw")
        if g("negLAe") is not None and g("negLAe") > -90:
            la["e-"] = -g("negLAe")
        # ---- mass action for every database reaction
        for name in sp:
            rx = db.species[name]
            if rx.bad or db._is_identity(rx) or name not in la:
                continue
            if any(s2 not in la for _, s2 in rx.terms):
                continue
            lk = db.log_k_T(rx, tk)
            if lk is None:
                continue
            res = sum(c * la[s2] for c, s2 in rx.terms) - lk
            nres += 1
            worst = max(worst, abs(res))
            sigs.add("%s|%s" % (case["db"], name))
            if abs(res) > TOL_LOGK:
                findings.append(("C01/mass-action/%s" % case["db"], "row %d (T=%.2f K) of %s: reaction %r has sum(nu*log a) - log K(T) = %.3e (log K from the database text %.9f)" % (
                    ri, tk, case["id"], rx.eq_text, res, lk)))
                break
        # ---- LA = LM + LG
        for s_ in sp:
            a, m, gm = g("LA:%s" % s_), g("LM:%s" % s_), g("LG:%s" % s_)
            if a is None or m is None or gm is None or a < -90 or m < -90:
                continue
            if s_ in ("H2O", "e-"):
                continue
            if abs(a - (m + gm)) > 1e-9:
                findings.append(("C01/readout/la-lm-lg", "row %d of %s: LA(%s)=%.12f but LM+LG=%.12f" % (ri, case["id"], s_, a, m + gm)))
                break
        # ---- sums
        kgw = g("kgw")
        mol = {}
        for s_ in sp:
            m = g("LM:%s" % s_)
            if m is not None and m > -90 and s_ not in ("H2O", "e-"):
                mol[s_] = 10.0 ** m
        if kgw and len(sp) < 420 and not case.get("unparsed"):
            for e in els:
                tot = g("TOT:%s" % e)
                if tot is None:
                    continue
                ssum = 0.0
                ok = True
                for s_, m in mol.items():
                    rx = db.species[s_]
                    try:
                        n = db.composition(s_).get(e, 0.0)
                    except ValueError:
                        ok = False
                        break
                    ssum += n * m
                if not ok:
                    continue
                scale = max(abs(tot), abs(ssum))
                if scale > 1e-30:
                    worst_sum = max(worst_sum, abs(tot - ssum) / scale)
                    sigs.add("%s|sum:%s" % (case["db"], e))
                    if abs(tot - ssum) > TOL_REL * scale + 1e-20:
                        findings.append(("C01/element-total/%s" % case["db"], "row %d of %s: TOT(%s)=%.12e but stoichiometry-weighted species sum=%.12e" % (ri, case["id"], e, tot, ssum)))
            mu = g("MU")
            zz = {s_: dbparse.charge_of(s_)[1] for s_ in mol}
            mu_sum = 0.5 * sum(zz[s_] ** 2 * m for s_, m in mol.items())
            if mu is not None and abs(mu - mu_sum) > TOL_REL * max(mu, mu_sum):
                findings.append(("C01/ionic-strength/%s" % case["db"], "row %d of %s: MU=%.12e but 0.5*sum z^2 m=%.12e" % (ri, case["id"], mu, mu_sum)))
            cb = g("CB")
            cb_sum = kgw * sum(zz[s_] * m for s_, m in mol.items())
            big = kgw * sum(abs(zz[s_]) * m for s_, m in mol.items())
            if cb is not None and abs(cb - cb_sum) > TOL_REL * big + 1e-18:
                findings.append(("C01/charge-balance/%s" % case["db"], "row %d of %s: CHARGE_BALANCE=%.12e but kgw*sum z m=%.12e (sum |z| m = %.3e)" % (ri, case["id"], cb, cb_sum, big)))
            sigs.add("%s|mu+cb" % case["db"])
        # ---- pH, pe read-outs
        if "pH" in v and g("negLAH") is not None and abs(v["pH"] - g("negLAH")) > 1e-9:
            findings.append(("C01/readout/pH", "row %d of %s: pH column %.12f vs -LA(H+) %.12f" % (ri, case["id"], v["pH"], g("negLAH"))))
        alkc = next((v[h_] for h_ in v if h_ == "Alk" or h_.startswith("Alk(")), None)
        if alkc is not None and g("ALKB") is not None:
            nres += 1
            if abs(alkc - g("ALKB")) > 1e-12 * max(abs(alkc), abs(g("ALKB"))) + 1e-25:
                findings.append(("C01/readout/alk", "row %d of %s: Alk column %.12e vs BASIC ALK %.12e (water %.6g kg)" % (ri, case["id"], alkc, g("ALKB"), g("kgw") or 0)))
        if "pe" in v and g("negLAe") is not None and abs(v["pe"] - g("negLAe")) > 1e-9:
            findings.append(("C01/readout/pe", "row %d of %s: pe column %.12f vs -LA(e-) %.12f" % (ri, case["id"], v["pe"], g("negLAe"))))
        # ---- phases
        for p in phs:
            rx = db.phases[p]
            si, sr = g("SI:%s" % p), g("SR:%s" % p)
            if si is None or si < -99.9:
                continue
            aq = rx.terms[1:]
            if any(s2 not in la for _, s2 in aq):
                continue
            lk = db.log_k_T(rx, tk)
            if lk is None:
                continue
            want = sum(c * la[s2] for c, s2 in aq) - lk
            sigs.add("%s|phase:%s" % (case["db"], p))
            nres += 1
            worst = max(worst, abs(si - want))
            if abs(si - want) > TOL_LOGK:
                findings.append(("C01/saturation-index/%s" % case["db"], "row %d (T=%.2f K) of %s: SI(%s)=%.12f but log IAP - log K(T) from the database text = %.12f (%r)" % (
                    ri, tk, case["id"], p, si, want, rx.eq_text)))
                break
            if sr is not None and abs(si) < 300 and abs(sr - 10.0 ** si) > 1e-9 * max(abs(sr), 1e-300):
                findings.append(("C01/readout/sr", "row %d of %s: SR(%s)=%.12e vs 10^SI=%.12e" % (ri, case["id"], p, sr, 10.0 ** si)))
        if len(findings) >= 6:
            break
    if rows_ok == 0:
        return Result(INCONCLUSIVE, reason="no usable row")
    failed = rr[0].get("r") != 0
    stats = {"n_residuals": nres, "worst_logk_residual": worst, "worst_sum_rel": worst_sum, "n_rows": rows_ok, "n_species_punched": len(sp), "n_phases_punched": len(phs)}
    sample = dict(id=case["id"], db=case["db"], elements=els, species=len(sp), phases=len(phs), rows=rows_ok, worst_residual=worst)
    if findings:
        k, w = findings[0]
        return Result(VIOLATED, key=k, what=w, findings=findings[1:], sigs=sigs, sample=sample, stats=stats)
    if nres == 0:
        return Result(INCONCLUSIVE, reason="no reaction with all activities defined")
    return Result(HELD, sigs=sigs, sample=sample, stats=stats)
