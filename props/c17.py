"""C17 - BASIC programs compute standard arithmetic, string and control-flow semantics, identically in the four hosts.

Monitor: programs are generated as syntax trees from a grammar over the documented statement and expression forms, rendered to BASIC text with the *minimum*
parentheses the documented precedences require (so a precedence or associativity slip changes the value), and evaluated by an independent reference interpreter
written from the manual (props/c17.py: class Ref).  The same program is run by the engine in USER_PUNCH (values delivered by PUNCH), USER_PRINT (PRINT of
STR_E$(v, 25, 16)), RATES and CALCULATE_VALUES (values delivered through PUT / PUT$ and SAVE and read back by a one-line USER_PUNCH); every delivered number must
equal the reference to 1e-12 relative and every delivered string exactly.  Programs whose reference evaluation fails (zero divide, bad subscript, out of data,
non-termination, overflow) are not used as valid programs.
Malformed programs: a valid program with one construct made invalid on the executed path (type mismatch, unbalanced parenthesis, missing THEN / NEXT / WEND,
GOTO to a missing line, RETURN without GOSUB, READ beyond the data, subscript beyond DIM, DIM twice, unknown statement, unterminated string, ...) must make the
run fail with an error (RunString != 0, error text non-blank); under ASan/UBSan no report, no abort, no hang.  Text-level token mutations (deletion, duplication,
swap, truncation) add a crash-only oracle.
"""
import hashlib
import math
import os
import re

from vlib import core, gens
from vlib.core import Result, HELD, VIOLATED, INCONCLUSIVE

PROP = "C17"
FLAVOURS = ["opt", "asan"]
RULE = ("cases: seeded programs of 5-120 lines over numeric operators (+ - * / ^ MOD, unary minus, relational, AND OR XOR NOT), 16 numeric and 12 string functions, scalars, 1-3-dimensional numeric and string arrays, "
        "IF/THEN/ELSE (single line, nested, THEN line-number), FOR/NEXT/STEP (negative and fractional steps, zero-trip), WHILE/WEND, GOTO, GOSUB/RETURN (nested), ON..GOTO / ON..GOSUB, DATA/READ/RESTORE, PUT/GET/EXISTS, DIM; "
        "each run in USER_PUNCH, USER_PRINT, RATES and CALCULATE_VALUES; malformed variants of 14 kinds + token mutations under ASan. distinct & non-trivial = distinct (host, delivered-value signature) and (malformed kind, error message) pairs")
ASSUME = ["strings up to 3000 characters (PAD / STR_F$ widths of 255-700 are drawn on purpose: the interpreter allocates 256-byte blocks by default)", "the reference interpreter follows the manual; dialect points it takes from the manual's chipmunk-BASIC heritage are listed in DESIGN.md (unary minus binds tighter than ^, AND/OR/XOR/NOT are bitwise on rounded integers, "
          "relational operators yield 1/0, array bounds 0..n, FOR evaluates its limits once)", "numeric literals are decimal; strings are printable ASCII without quotes", "a program is 'valid' only if the reference evaluates it without a run-time error within 20000 steps"]

# ------------------------------------------------------------------------------------------------------------------ syntax tree
# expressions: ("num", text, value) ("str", text) ("var", name) ("arr", name, [idx]) ("un", op, e) ("bin", op, a, b) ("fn", name, [args]) ("par", e)
PREC = {"or": 1, "xor": 1, "and": 2, "=": 3, "<>": 3, "<": 3, "<=": 3, ">": 3, ">=": 3, "+": 4, "-": 4, "*": 5, "/": 5, "mod": 5, "^": 6}


class BasicError(Exception):
    pass


def prec(e):
    k = e[0]
    if k == "bin":
        return PREC[e[1]]
    return 7


def render(e, need=0, r=None):
    """text of e in a context that needs precedence >= need; r (a Random) adds redundant parentheses and spacing variety"""
    k = e[0]
    if k == "num":
        s = e[1]
    elif k == "str":
        s = '"%s"' % e[1] if "'" in e[1] or (r and r.random() < 0.7) or not r else "'%s'" % e[1]
    elif k == "var":
        s = e[1]
    elif k == "arr":
        br = ("[", "]") if (r and r.random() < 0.15) else ("(", ")")
        s = e[1] + br[0] + ", ".join(render(i, 0, r) for i in e[2]) + br[1]
    elif k == "par":
        s = "(" + render(e[1], 0, r) + ")"
    elif k == "un":
        inner = render(e[2], 7, r)
        s = ("-" + (" " if inner.startswith("-") else "") + inner) if e[1] == "-" else ("NOT " + inner)
    elif k == "fn":
        s = e[1].upper() + "(" + ", ".join(render(a, 0, r) for a in e[2]) + ")"
    else:
        op, a, b = e[1], e[2], e[3]
        p = PREC[op]
        if op == "^":
            s = render(a, 7, r) + "^" + render(b, 6, r)      # factor ^ upexpr : right associative, the base is a factor
        else:
            sp = " " if (op.isalpha() or not r or r.random() < 0.8) else ""
            s = render(a, p, r) + sp + op.upper() + sp + render(b, p + 1, r)
        if p < need:
            return "(" + s + ")"
        return s
    if r and r.random() < 0.04 and k not in ("str",):
        return "(" + s + ")"
    return s


def to_long(x):
    if x != x or abs(x) > 9e18:
        raise BasicError("integer overflow")
    return int(math.floor(x + 0.5))


def c_long(x):
    """(long) x : truncation toward zero"""
    if x != x or abs(x) > 9e18:
        raise BasicError("integer overflow")
    return int(x)


class Ref:
    """reference interpreter over the flat program: lines = [(number, [stmt, ...])]"""

    def __init__(self, lines, mod_fudge=False, step_limit=20000, ulp_bias=0):
        self.bias = 1.0 + ulp_bias * 2.220446049250313e-16      # conditioning probe: every transcendental result is moved by ulp_bias units in the last place
        self.lines = lines
        self.index = {n: i for i, (n, _) in enumerate(lines)}
        self.vars, self.arrs, self.store, self.sstore = {}, {}, {}, {}
        self.out = []           # delivered values in order: ("n", float) / ("s", str)
        self.saved = 0.0
        self.steps, self.limit = 0, step_limit
        self.mod_fudge = mod_fudge
        self.data = []
        for li, (n, st) in enumerate(lines):
            for s in st:
                if s[0] == "data":
                    self.data.append((li, s[1]))
        self.dptr = (0, 0)
        # PUT keys of the program (literal subscripts): reading one of them before it was written in this run would make the result depend on how often the host
        # has run the program before (the store outlives a run), so such programs are not used
        self.static_put = set()

        def walk(sts):
            for s in sts:
                if s[0] == "put":
                    try:
                        self.static_put.add((s[1][0],) + tuple(int(float(a[1])) for a in s[2] if a[0] == "num"))
                    except ValueError:
                        pass
                elif s[0] == "if":
                    for b in (s[2], s[3]):
                        if isinstance(b, list):
                            walk(b)
        for _, st in lines:
            walk(st)

    def store_read(self, kind, key):
        if (kind,) + key in self.static_put and key not in (self.sstore if kind == "s" else self.store):
            raise BasicError("GET before PUT")

    # ---- expressions
    def ev(self, e):
        k = e[0]
        if k == "num":
            return e[2]
        if k == "str":
            return e[1]
        if k == "par":
            return self.ev(e[1])
        if k == "var":
            return self.vars.get(e[1].lower(), "" if e[1].endswith("$") else 0.0)
        if k == "arr":
            return self.arr_ref(e)[0][self.arr_ref(e)[1]] if False else self.arr_get(e)
        if k == "un":
            v = self.ev(e[2])
            if isinstance(v, str):
                raise BasicError("type mismatch")
            return -v if e[1] == "-" else float(~to_long(v))
        if k == "fn":
            return self.fn(e[1], e[2])
        op = e[1]
        a = self.ev(e[2])
        b = self.ev(e[3])
        sa, sb = isinstance(a, str), isinstance(b, str)
        if op in ("=", "<>", "<", "<=", ">", ">="):
            if sa != sb:
                raise BasicError("type mismatch")
            r = {"=": a == b, "<>": a != b, "<": a < b, "<=": a <= b, ">": a > b, ">=": a >= b}[op]
            return 1.0 if r else 0.0
        if op == "+":
            if sa != sb:
                raise BasicError("type mismatch")
            return a + b
        if sa or sb:
            raise BasicError("type mismatch")
        if op == "-":
            return a - b
        if op == "*":
            return a * b
        if op == "/":
            if b == 0:
                raise BasicError("zero divide")
            return a / b
        if op == "mod":
            if b == 0:
                raise BasicError("zero divide")
            if a == 0:
                return 0.0
            return math.copysign(1.0, a) * math.fmod(abs(a) + (1e-14 if self.mod_fudge else 0.0), b)
        if op == "^":
            if a > 0:
                return math.exp(b * math.log(a)) * self.bias
            if a == 0:
                if b <= 0:
                    raise BasicError("zero to a non-positive power")
                return a          # the engine leaves a zero base as it is, sign included: (-0)^3 prints as -0.000000e+00 (the sign of a zero is not a value the statement fixes)
            if b != float(int(b)):
                raise BasicError("negative base, fractional power")
            v = math.exp(b * math.log(-a))
            return -v if int(b) & 1 else v
        if op == "and":
            return float(c_long(a) & c_long(b))
        if op == "or":
            return float(c_long(a) | c_long(b))
        if op == "xor":
            return float(c_long(a) ^ c_long(b))
        raise BasicError("operator " + op)

    def num(self, e):
        v = self.ev(e)
        if isinstance(v, str):
            raise BasicError("type mismatch")
        if v != v or abs(v) > 1e150:
            raise BasicError("overflow")
        return v

    def sval(self, e):
        v = self.ev(e)
        if not isinstance(v, str):
            raise BasicError("type mismatch")
        if len(v) > 3000:
            raise BasicError("string too long for this test")
        return v

    def fn(self, name, args):
        n = name.lower()
        if n in ("abs", "sgn", "sqr", "sqrt", "exp", "log", "log10", "sin", "cos", "tan", "arctan", "floor", "ceil"):
            x = self.num(args[0])
            if n == "abs":
                return abs(x)
            if n == "sgn":
                return float(x > 0) - float(x < 0)
            if n == "sqr":
                return x * x
            if n == "sqrt":
                if x < 0:
                    raise BasicError("sqrt of negative")
                return math.sqrt(x)
            if n == "exp":
                if x > 300:
                    raise BasicError("overflow")
                return math.exp(x) * self.bias
            if n in ("log", "log10"):
                if x <= 0:
                    raise BasicError("log of non-positive")
                return (math.log(x) if n == "log" else math.log10(x)) * self.bias
            if n in ("floor", "ceil"):
                v = float(math.floor(x) if n == "floor" else math.ceil(x))
                return math.copysign(0.0, x) if v == 0 else v          # C keeps the sign of a zero result (STR$ prints it)
            return {"sin": math.sin, "cos": math.cos, "tan": math.tan, "arctan": math.atan}[n](x) * self.bias
        if n == "len":
            return float(len(self.sval(args[0])))
        if n == "asc":
            s = self.sval(args[0])
            return float(ord(s[0])) if s else 0.0
        if n == "chr$":
            c = to_long(self.num(args[0]))
            if not 32 <= c <= 126:
                raise BasicError("chr$ outside printable ASCII")
            return chr(c)
        if n == "val":
            s = self.sval(args[0]).strip()
            try:
                return float(s) if s else 0.0
            except ValueError:
                raise BasicError("val of a non-literal")
        if n == "str$":
            x = self.ev(args[0])          # not num(): STR$ of numbers up to 1e300 is wanted (the integer format needs more than 256 characters there)
            if isinstance(x, str) or x != x or abs(x) > 1e305:
                raise BasicError("type mismatch / overflow")
            if x != math.floor(x) or (abs(x) > 1e15 and abs(x) < 1e22):
                raise BasicError("str$ of a non-integer is host dependent")
            return "%.0f" % x           # callers wrap it in TRIM (the field width depends on -high_precision)
        if n == "mid$":
            s = self.sval(args[0])
            i = max(1, to_long(self.num(args[1])))
            if len(args) > 2:
                j = to_long(self.num(args[2]))
                if j < 0:
                    raise BasicError("negative length")
                return s[i - 1:i - 1 + j]
            return s[i - 1:]
        if n == "instr":
            a, b = self.sval(args[0]), self.sval(args[1])
            return float(a.find(b) + 1)
        if n == "ltrim":
            return self.sval(args[0]).lstrip(" ")
        if n == "rtrim":
            return self.sval(args[0]).rstrip(" ")
        if n == "trim":
            return self.sval(args[0]).strip(" ")
        if n in ("pad", "pad$"):
            s = self.sval(args[0])
            w = to_long(self.num(args[1]))
            if w > 3000:
                raise BasicError("string too long for this test")
            return s + " " * max(0, w - len(s))
        if n in ("str_f$", "str_e$"):
            x = self.num(args[0])
            w, d = c_long(self.num(args[1])), c_long(self.num(args[2]))
            if not (0 <= d <= 17 and 0 <= w <= 900) or abs(x) > 1e30:
                raise BasicError("format outside the tested range")
            return ("%*.*f" if n == "str_f$" else "%*.*e") % (w, d, x)
        if n in ("get", "get$", "exists"):
            key = tuple(to_long(self.num(a)) for a in args)
            self.store_read("s" if n == "get$" else "n", key)
            if n == "get":
                return self.store.get(key, 0.0)
            if n == "get$":
                return self.sstore.get(key, "unknown")
            return 1.0 if key in self.store else 0.0
        raise BasicError("function " + name)

    # ---- arrays
    def arr_slot(self, e):
        name = e[1].lower()
        idx = [to_long(self.num(i)) for i in e[2]]
        if name not in self.arrs:
            if len(idx) > 4:
                raise BasicError("bad subscript")
            self.arrs[name] = ([11] * len(idx), {})
        dims, cells = self.arrs[name]
        if len(idx) != len(dims) or any(not 0 <= i < d for i, d in zip(idx, dims)):
            raise BasicError("bad subscript")
        return cells, tuple(idx), name

    def arr_get(self, e):
        cells, idx, name = self.arr_slot(e)
        return cells.get(idx, "" if name.endswith("$") else 0.0)

    # ---- statements
    def assign(self, target, value):
        isstr = target[1].endswith("$")
        if isstr != isinstance(value, str):
            raise BasicError("type mismatch")
        if not isstr and (value != value or abs(value) > 1e150):
            raise BasicError("overflow")
        if isstr and len(value) > 3000:
            raise BasicError("string too long for this test")
        if target[0] == "var":
            if target[1].lower() in self.arrs:
                raise BasicError("bad subscript")
            self.vars[target[1].lower()] = value
        else:
            cells, idx, _ = self.arr_slot(target)
            cells[idx] = value

    def run(self):
        pc = (0, 0)
        loops = []        # ("for", var, max, step, (li, si)) ("while", (li, si), cond) ("gosub", (li, si))
        while pc is not None:
            li, si = pc
            if li >= len(self.lines):
                break
            stmts = self.lines[li][1]
            if si >= len(stmts):
                pc = (li + 1, 0)
                continue
            self.steps += 1
            if self.steps > self.limit:
                raise BasicError("step limit")
            pc = self.exec_stmt(stmts[si], li, si, loops)
        return self.out

    def goto(self, n):
        if n not in self.index:
            raise BasicError("undefined line")
        return (self.index[n], 0)

    def scan_forward(self, li, si, open_kind, close_kind, var=None):
        """position after the statement closing the loop opened just before (li, si)"""
        depth_same, depth_other = 0, 0
        pos = (li, si)
        while True:
            l, s = pos
            if l >= len(self.lines):
                raise BasicError("%s without %s" % (open_kind, close_kind))
            stmts = self.lines[l][1]
            if s >= len(stmts):
                pos = (l + 1, 0)
                continue
            st = stmts[s]
            if st[0] == open_kind:
                if open_kind == "for" and var is not None and st[1][1].lower() == var:
                    depth_same += 1
                else:
                    depth_other += 1
            elif st[0] == close_kind:
                if open_kind == "for":
                    if st[1] is not None and st[1].lower() == var:
                        depth_same -= 1
                    else:
                        depth_other -= 1
                    if depth_same < 0 or depth_other < 0:
                        return (l, s + 1)
                else:
                    if depth_other == 0:
                        return (l, s + 1)
                    depth_other -= 1
            pos = (l, s + 1)

    def exec_list(self, stmts, li, loops):
        """statements of an IF branch (same line).  returns a pc or 'fall'"""
        for k, st in enumerate(stmts):
            r = self.exec_stmt(st, li, None, loops)
            if r != "next":
                return r
        return "fall"

    def exec_stmt(self, st, li, si, loops):
        nxt = (li, si + 1) if si is not None else "next"
        k = st[0]
        if k == "rem" or k == "data":
            return nxt
        if k == "let":
            self.assign(st[1], self.ev(st[2]))
            return nxt
        if k == "dim":
            for name, dims in st[1]:
                if name.lower() in self.arrs:
                    raise BasicError("array already dimensioned")
                d = [to_long(self.num(x)) + 1 for x in dims]
                if any(x < 1 for x in d) or len(d) > 4:
                    raise BasicError("bad subscript")
                self.arrs[name.lower()] = (d, {})
            return nxt
        if k == "if":
            c = self.num(st[1])
            branch = st[2] if c != 0 else st[3]
            if branch is None:
                return (li + 1, 0)
            if isinstance(branch, int):
                return self.goto(branch)
            r = self.exec_list(branch, li, loops)
            return (li + 1, 0) if r == "fall" else r
        if k == "goto":
            return self.goto(st[1])
        if k == "gosub":
            loops.append(("gosub", (li, si + 1) if si is not None else (li + 1, 0)))
            return self.goto(st[1])
        if k == "return":
            while True:
                if not loops:
                    raise BasicError("RETURN without GOSUB")
                fr = loops.pop()
                if fr[0] == "gosub":
                    return fr[1]
        if k in ("ongoto", "ongosub"):
            i = to_long(self.num(st[1]))
            if k == "ongosub":
                loops.append(("gosub", (li, si + 1) if si is not None else (li + 1, 0)))
            if i < 1 or i > len(st[2]):
                if k == "ongosub" and False:
                    loops.pop()
                return nxt
            return self.goto(st[2][i - 1])
        if k == "for":
            var = st[1]
            v0 = self.num(st[2])
            mx = self.num(st[3])
            step = self.num(st[4]) if st[4] is not None else 1.0
            self.assign(var, v0)
            if (step >= 0 and v0 > mx) or (step <= 0 and v0 < mx):
                return self.scan_forward(li, si + 1, "for", "next", var[1].lower())
            loops.append(("for", var[1].lower(), mx, step, (li, si + 1)))
            return nxt
        if k == "next":
            while True:
                if not loops or loops[-1][0] == "gosub":
                    raise BasicError("NEXT without FOR")
                fr = loops[-1]
                if fr[0] == "for" and (st[1] is None or fr[1] == st[1].lower()):
                    break
                loops.pop()
            _, var, mx, step, home = loops[-1]
            v = self.vars.get(var, 0.0) + step
            self.vars[var] = v
            if (step < 0 or v <= mx) and (step > 0 or v >= mx):
                return home
            loops.pop()
            return nxt
        if k == "while":
            if self.num(st[1]) != 0:
                loops.append(("while", (li, si + 1), st[1]))
                return nxt
            return self.scan_forward(li, si + 1, "while", "wend")
        if k == "wend":
            while True:
                if not loops or loops[-1][0] == "gosub":
                    raise BasicError("WEND without WHILE")
                if loops[-1][0] == "while":
                    break
                loops.pop()
            if self.num(loops[-1][2]) != 0:
                return loops[-1][1]
            loops.pop()
            return nxt
        if k == "read":
            for target in st[1]:
                di, ii = self.dptr
                while di < len(self.data) and ii >= len(self.data[di][1]):
                    di, ii = di + 1, 0
                if di >= len(self.data):
                    raise BasicError("Out of Data")
                self.assign(target, self.ev(self.data[di][1][ii]))
                self.dptr = (di, ii + 1)
            return nxt
        if k == "restore":
            if st[1] is None:
                self.dptr = (0, 0)
            else:
                if st[1] not in self.index:
                    raise BasicError("undefined line")
                tl = self.index[st[1]]
                di = 0
                while di < len(self.data) and self.data[di][0] < tl:
                    di += 1
                self.dptr = (di, 0)
            return nxt
        if k == "put":
            key = tuple(to_long(self.num(a)) for a in st[2])
            if st[1][0] == "s":
                self.sstore[key] = self.sval(st[1][1])
            else:
                self.store[key] = self.num(st[1][1])
            return nxt
        if k == "deliver":
            for e in st[1]:
                v = self.ev(e)
                if isinstance(v, str):
                    if len(v) > 2500:
                        raise BasicError("string too long for this test")
                    self.out.append(("s", v))
                else:
                    if v != v or abs(v) > 1e150:
                        raise BasicError("overflow")
                    self.out.append(("n", v))
                if len(self.out) > 60:
                    raise BasicError("too many delivered values")
            return nxt
        if k == "save":
            self.saved = self.num(st[1])
            return nxt
        if k == "end":
            return None
        raise BasicError("statement " + k)


# ------------------------------------------------------------------------------------------------------------------ rendering of statements
def render_stmt(st, host, r, state):
    k = st[0]
    if k == "rem":
        return "REM " + st[1]
    if k == "let":
        return ("LET " if r.random() < 0.15 else "") + render(st[1], 0, None) + " = " + render(st[2], 0, r)
    if k == "dim":
        return "DIM " + ", ".join("%s(%s)" % (n, ", ".join(render(d, 0, r) for d in dims)) for n, dims in st[1])
    if k == "if":
        def br(b):
            if isinstance(b, int):
                return ("GOTO %d" % b) if r.random() < 0.5 else "%d" % b
            return " : ".join(render_stmt(s, host, r, state) for s in b)
        s = "IF " + render(st[1], 0, r) + " THEN " + br(st[2])
        if st[3] is not None:
            s += " ELSE " + br(st[3])
        return s
    if k == "goto":
        return "GOTO %d" % st[1]
    if k == "gosub":
        return "GOSUB %d" % st[1]
    if k == "return":
        return "RETURN"
    if k == "ongoto":
        return "ON " + render(st[1], 0, r) + " GOTO " + ", ".join(map(str, st[2]))
    if k == "ongosub":
        return "ON " + render(st[1], 0, r) + " GOSUB " + ", ".join(map(str, st[2]))
    if k == "for":
        s = "FOR %s = %s TO %s" % (st[1][1], render(st[2], 0, r), render(st[3], 0, r))
        if st[4] is not None:
            s += " STEP " + render(st[4], 0, r)
        return s
    if k == "next":
        return "NEXT" + (" " + st[1] if st[1] else "")
    if k == "while":
        return "WHILE " + render(st[1], 0, r)
    if k == "wend":
        return "WEND"
    if k == "data":
        return "DATA " + ", ".join(render(e, 0, r) for e in st[1])
    if k == "read":
        return "READ " + ", ".join(render(t, 0, None) for t in st[1])
    if k == "restore":
        return "RESTORE" + (" %d" % st[1] if st[1] is not None else "")
    if k == "put":
        return ("PUT$" if st[1][0] == "s" else "PUT") + "(" + render(st[1][1], 0, r) + ", " + ", ".join(render(a, 0, r) for a in st[2]) + ")"
    if k == "end":
        return "END"
    if k == "save":
        if host == "rates":
            return "SAVE 0 * (" + render(st[1], 0, r) + ")"        # the value is a reaction amount for the integrator: keep it zero, deliver through PUT
        return "SAVE " + render(st[1], 0, r) if host == "calc" else "REM save"
    if k == "deliver":
        if host == "punch":
            return "PUNCH " + ", ".join(render(e, 0, r) for e in st[1])
        if host == "print":
            parts = []
            for e in st[1]:
                parts.append(('"C17" + "S[" + %s + "]"' % render(e, 5, r)) if is_str(e) else ('"C17" + "N", STR_E$(%s, 25, 16)' % render(e, 0, r)))      # split markers: the echoed input must not match
            return " : ".join("PRINT " + p for p in parts)
        parts = []
        for e in st[1]:
            parts.append("zzq = zzq + 1 : %s(%s, 9000 + zzq)" % ("PUT$" if is_str(e) else "PUT", render(e, 0, r)))
        return " : ".join(parts)
    raise ValueError(k)


def is_str(e):
    k = e[0]
    if k == "str":
        return True
    if k in ("var", "arr"):
        return e[1].endswith("$")
    if k == "par":
        return is_str(e[1])
    if k == "fn":
        return e[1].lower() in ("chr$", "str$", "mid$", "ltrim", "rtrim", "trim", "pad", "pad$", "str_f$", "str_e$", "get$")
    if k == "bin":
        return e[1] == "+" and is_str(e[2])
    return False


def render_program(lines, host, r):
    out, state = [], {}
    for n, stmts in lines:
        body = " : ".join(render_stmt(s, host, r, state) for s in stmts)
        out.append("%d %s" % (n, body))
    return out


# ------------------------------------------------------------------------------------------------------------------ generator
NUMVARS = ["a", "b", "c", "x1", "y_2", "Total", "rate", "k9", "lm1", "si_cal"]
STRVARS = ["s$", "t$", "name$", "w1$"]
INTVARS = ["n", "mq", "p"]
WORDS = ["calcite", "Na+", "  pad ", "x", "", "SO4-2", "abc def", "Zz", "0.5", "12", " 7 ", "H2O"]


def lit(r, kind="any"):
    c = r.random()
    if kind == "int" or c < 0.35:
        v = r.choice([0, 1, 2, 3, 4, 5, 7, 10, 12, 100, 255, 1000])
        return ("num", str(v), float(v))
    if c < 0.7:
        v = r.choice([0.5, 0.25, 1.5, 2.75, 0.1, 3.14159, 1e-3, 2.5e4, 6.022e23, 1e-12, 0.3333333333333333, 9.99, 1234.5678])
        t = r.choice([repr(v), "%g" % v, ("%e" % v), ("%E" % v)])
        return ("num", t, float(t))
    if c < 0.8:
        t = r.choice([".5", "5.", "1.e2", "0.0", "00012", "1e0", "2E+3", "7.e-1"])
        return ("num", t, float(t))
    v = round(gens.loguni(r, 1e-6, 1e6), r.randint(0, 8))
    t = repr(v)
    return ("num", t, float(t))


class Gen:
    def __init__(self, r):
        self.r = r
        self.arrays = {}        # name -> dims (list of ints, upper bounds)
        self.lines = []
        self.ln = 1             # line 1 stays free for the statement a malformed variant puts in front
        self.depth = 0
        self.subs = []          # (first line number placeholder id, block)
        self.nput = []
        self.loopvars = ["i", "j", "kk", "ii2"]
        self.used_loop = []
        self.pending_labels = {}

    # ---- expressions
    def nexpr(self, d=0, small=False):
        r = self.r
        c = r.random()
        if d >= 4 or c < 0.22:
            return lit(r, "int" if small else "any")
        if c < 0.42:
            pool = NUMVARS + INTVARS + self.used_loop
            return ("var", r.choice(pool))
        if c < 0.50 and self.arrays:
            name = r.choice([n for n in self.arrays if not n.endswith("$")] or [None])
            if name:
                return ("arr", name, [self.index_expr(ub, d + 1) for ub in self.arrays[name]])
        if c < 0.60:
            f = r.choice(["abs", "sgn", "sqr", "floor", "ceil", "sin", "cos", "arctan", "exp", "log", "log10", "sqrt", "tan"])
            a = self.nexpr(d + 1)
            if f in ("log", "log10"):
                a = ("bin", "+", ("fn", "abs", [a]), lit(r, "int") if r.random() < 0.5 else ("num", "0.5", 0.5))
            elif f == "sqrt":
                a = ("fn", "abs", [a])
            elif f == "exp":
                a = ("fn", r.choice(["sin", "cos", "arctan"]), [a])
            elif f == "tan":
                a = ("fn", "arctan", [a])
            return ("fn", f, [a])
        if c < 0.66:
            f = r.choice(["len", "asc", "instr", "val"])
            if f == "instr":
                return ("fn", f, [self.sexpr(d + 1), self.sexpr(d + 2)])
            if f == "val":
                return ("fn", f, [("str", r.choice(["12", "0.5", " 7 ", "1e3", "-2.5", "", "3.25"]))])
            return ("fn", f, [self.sexpr(d + 1)])
        if c < 0.70 and self.nput:
            key = r.choice(self.nput)
            return ("fn", r.choice(["get", "get", "exists"]), [("num", str(k), float(k)) for k in key])
        if c < 0.74:
            return ("un", "-", self.nexpr(d + 1))
        if c < 0.76:
            return ("un", "not", self.nexpr(d + 1, small=True))
        if c < 0.80:
            op = r.choice(["=", "<>", "<", "<=", ">", ">="])
            if r.random() < 0.25:
                return ("bin", op, self.sexpr(d + 1), self.sexpr(d + 1))
            return ("bin", op, self.nexpr(d + 1), self.nexpr(d + 1))
        if c < 0.84:
            return ("bin", r.choice(["and", "or", "xor"]), self.nexpr(d + 1, small=True), self.nexpr(d + 1, small=True))
        if c < 0.89:
            b = r.choice([lit(r, "int"), ("num", "2", 2.0), ("num", "0.5", 0.5), ("un", "-", ("num", "1", 1.0)), ("num", "3", 3.0), ("bin", "^", ("num", "2", 2.0), ("num", "3", 3.0)), ("bin", "^", ("num", "3", 3.0), ("num", "2", 2.0)), ("bin", "^", ("num", "0.5", 0.5), ("un", "-", ("num", "2", 2.0)))])
            a = self.nexpr(d + 1)
            w = r.random()
            if w < 0.25:
                # negative bases with integer exponents of both signs and parities (the sign of the result follows the parity of the exponent)
                a = ("un", "-", r.choice([("num", "2", 2.0), ("num", "1.5", 1.5), ("num", "3", 3.0), ("fn", "abs", [a])])) if r.random() < 0.7 else ("par", ("un", "-", ("bin", "+", ("fn", "abs", [a]), ("num", "0.5", 0.5))))
                k_ = r.choice([-5, -3, -2, -1, 1, 2, 3, 4])
                b = ("num", str(k_), float(k_)) if k_ > 0 else ("un", "-", ("num", str(-k_), float(-k_)))
            elif w < 0.7:
                a = ("bin", "+", ("fn", "abs", [a]), ("num", "1", 1.0))
            return ("bin", "^", a, b)
        if c < 0.93:
            return ("bin", "mod", self.nexpr(d + 1), r.choice([("num", "2", 2.0), ("num", "3", 3.0), ("num", "7", 7.0), ("num", "2.5", 2.5), ("bin", "+", ("fn", "abs", [self.nexpr(d + 2)]), ("num", "1", 1.0))]))
        op = r.choice(["+", "-", "*", "/", "+", "-", "*"])
        a, b = self.nexpr(d + 1), self.nexpr(d + 1)
        if op == "/" and r.random() < 0.8:
            b = ("bin", "+", ("fn", "abs", [b]), ("num", "1", 1.0))
        return ("bin", op, a, b)

    def index_expr(self, ub, d=0):
        r = self.r
        c = r.random()
        if c < 0.4:
            v = r.randint(0, ub)
            return ("num", str(v), float(v))
        if c < 0.7 and self.used_loop:
            return ("bin", "mod", ("var", r.choice(self.used_loop)), ("num", str(ub + 1), float(ub + 1)))
        return ("bin", "mod", ("fn", "floor", [("fn", "abs", [self.nexpr(d + 2)])]), ("num", str(ub + 1), float(ub + 1)))

    def sexpr(self, d=0):
        r = self.r
        c = r.random()
        if d >= 3 or c < 0.3:
            return ("str", r.choice(WORDS))
        if c < 0.5:
            return ("var", r.choice(STRVARS))
        if c < 0.56 and any(n.endswith("$") for n in self.arrays):
            name = r.choice([n for n in self.arrays if n.endswith("$")])
            return ("arr", name, [self.index_expr(ub, d + 1) for ub in self.arrays[name]])
        if c < 0.70:
            return ("bin", "+", self.sexpr(d + 1), self.sexpr(d + 1))
        if c < 0.78:
            s = self.sexpr(d + 1)
            a = [s, self.small_int(d + 1, 0, 6)]
            if r.random() < 0.6:
                a.append(self.small_int(d + 1, 0, 5))
            return ("fn", "mid$", a)
        if c < 0.84:
            return ("fn", r.choice(["ltrim", "rtrim", "trim"]), [self.sexpr(d + 1)])
        if c < 0.88:
            wide = r.random() < 0.12        # strings beyond the interpreter's default 256-byte blocks
            return ("fn", r.choice(["pad", "pad$"]), [self.sexpr(d + 1), ("num", str(r.choice([255, 256, 257, 300, 700])), 0.0) if wide else self.small_int(d + 1, 0, 12)])
        if c < 0.92:
            return ("fn", "chr$", [("bin", "+", ("num", "65", 65.0), self.small_int(d + 1, 0, 25))])
        if c < 0.95:
            return ("fn", "trim", [("fn", "str$", [("fn", "floor", [self.nexpr(d + 1)])])])
        f = r.choice(["str_f$", "str_e$"])
        if r.random() < 0.45:
            return ("fn", "trim", [("fn", "str$", [("num", r.choice(["1e300", "1e300", "1e280", "1e100", "2e25", "1e22"]), 0.0)])])
        return ("fn", f, [self.nexpr(d + 1), ("num", str(r.choice([0, 8, 12, 20, 20, 255, 256, 400])), 0.0), ("num", str(r.choice([0, 2, 6, 12])), 0.0)])

    def small_int(self, d, lo, hi):
        r = self.r
        if r.random() < 0.6:
            v = r.randint(lo, hi)
            return ("num", str(v), float(v))
        return ("bin", "+", ("num", str(lo), float(lo)), ("bin", "mod", ("fn", "floor", [("fn", "abs", [self.nexpr(d + 1)])]), ("num", str(hi - lo + 1), float(hi - lo + 1))))

    def fixnum(self, e):
        """numeric literal nodes carry their value: recompute for the ones built with a placeholder"""
        return e

    # ---- statements
    def add(self, stmts):
        self.ln += self.r.choice([1, 5, 10, 10, 10, 20])
        self.lines.append([self.ln, stmts])
        return self.ln

    def simple(self):
        r = self.r
        c = r.random()
        if c < 0.45:
            return ("let", ("var", r.choice(NUMVARS)), self.nexpr())
        if c < 0.55:
            return ("let", ("var", r.choice(INTVARS)), ("bin", "mod", ("fn", "floor", [("fn", "abs", [self.nexpr(1)])]), ("num", str(r.randint(2, 6)), 0.0)))
        if c < 0.70:
            return ("let", ("var", r.choice(STRVARS)), self.sexpr())
        if c < 0.82 and self.arrays:
            name = r.choice(sorted(self.arrays))
            tgt = ("arr", name, [self.index_expr(ub) for ub in self.arrays[name]])
            return ("let", tgt, self.sexpr() if name.endswith("$") else self.nexpr())
        if c < 0.92:
            key = tuple(r.randint(-2, 3) for _ in range(r.randint(1, 3)))      # negative subscripts are ordinary keys of the store
            if r.random() < 0.25:
                return ("put", ("s", self.sexpr()), [("num", str(k), float(k)) for k in key])
            self.nput.append(key)
            return ("put", ("n", self.nexpr()), [("num", str(k), float(k)) for k in key])
        return ("deliver", [self.nexpr() if r.random() < 0.75 else self.sexpr() for _ in range(r.randint(1, 3))])

    def block(self, budget):
        """emit statements worth about `budget` lines"""
        r = self.r
        while budget > 0:
            c = r.random()
            if c < 0.42 or self.depth >= 3:
                n = r.randint(1, 3)
                self.add([self.simple() for _ in range(n)])
                budget -= 1
            elif c < 0.54:
                # single-line IF with branches of simple statements, optionally nested
                cond = self.nexpr(1)
                th = [self.simple() for _ in range(r.randint(1, 2))]
                el = [self.simple() for _ in range(r.randint(1, 2))] if r.random() < 0.6 else None
                if r.random() < 0.3:
                    inner = ("if", self.nexpr(2), [self.simple()], [self.simple()] if r.random() < 0.7 else None)
                    if r.random() < 0.5 or el is None:
                        th = th[:1] + [inner] if inner[3] is not None or el is None else th
                    else:
                        el = el[:1] + [inner]
                self.add([self.simple()] * (1 if r.random() < 0.2 else 0) + [("if", cond, th, el)])
                budget -= 1
            elif c < 0.62:
                # multi-line conditional with a forward jump
                cond = self.nexpr(1)
                holder = self.add([("rem", "placeholder")])
                idx = len(self.lines) - 1
                self.depth += 1
                self.block(r.randint(1, 3))
                self.depth -= 1
                end = self.add([("rem", "endif")])
                self.lines[idx][1] = [("if", cond, end, None)]
                budget -= 3
            elif c < 0.76 and len(self.used_loop) < len(self.loopvars):
                var = self.loopvars[len(self.used_loop)]
                style = r.random()
                if style < 0.5:
                    lo, hi, st = self.small_int(1, 0, 3), self.small_int(1, 0, 6), None
                elif style < 0.75:
                    lo, hi, st = self.small_int(1, 3, 8), self.small_int(1, 0, 4), ("un", "-", ("num", r.choice(["1", "2", "0.5"]), 0.0))
                else:
                    lo, hi, st = ("num", "0", 0.0), r.choice([("num", "1", 1.0), ("num", "2.5", 2.5)]), ("num", r.choice(["0.25", "0.5", "0.1", "2"]), 0.0)
                if r.random() < 0.25:
                    body = [self.simple() for _ in range(r.randint(1, 2))]
                    self.used_loop.append(var)
                    body = [self.simple() for _ in range(r.randint(1, 2))]
                    self.used_loop.pop()
                    self.add([("for", ("var", var), lo, hi, st)] + body + [("next", var if r.random() < 0.8 else None)])
                else:
                    self.add([("for", ("var", var), lo, hi, st)])
                    self.used_loop.append(var)
                    self.depth += 1
                    self.block(r.randint(1, 3))
                    self.depth -= 1
                    self.used_loop.pop()
                    self.add([("next", var if r.random() < 0.8 else None)])
                budget -= 3
            elif c < 0.84:
                cnt = "w%d" % self.depth
                k = r.randint(0, 4)
                self.add([("let", ("var", cnt), ("num", "0", 0.0))])
                cond = ("bin", "<", ("var", cnt), ("num", str(k), float(k)))
                if r.random() < 0.4:
                    cond = ("bin", "and", cond, ("bin", "<", ("fn", "abs", [self.nexpr(2)]), ("num", "1e30", 1e30)))
                self.add([("while", cond)])
                self.depth += 1
                self.block(r.randint(1, 2))
                self.depth -= 1
                self.add([("let", ("var", cnt), ("bin", "+", ("var", cnt), ("num", "1", 1.0)))])
                self.add([("wend",)])
                budget -= 4
            elif c < 0.90:
                sid = len(self.subs)
                self.subs.append(None)
                holder = self.add([("gosub", -1 - sid)] + ([self.simple()] if r.random() < 0.4 else []))
                budget -= 1
            elif c < 0.96:
                # ON .. GOTO switch
                ncase = r.randint(2, 3)
                sel = self.small_int(1, 0, ncase + 1)
                self.add([("rem", "on-placeholder")])
                idx = len(self.lines) - 1
                self.add([self.simple()])                  # default (selector out of range)
                jumps = []
                self.add([("rem", "goto-end")])
                jumps.append(len(self.lines) - 1)
                targets = []
                for _ in range(ncase):
                    targets.append(self.add([self.simple()]))
                    self.add([("rem", "goto-end")])
                    jumps.append(len(self.lines) - 1)
                end = self.add([("rem", "end-on")])
                self.lines[idx][1] = [("ongoto", sel, targets)]
                for j in jumps:
                    self.lines[j][1] = [("goto", end)]
                budget -= 4
            elif c < 0.985:
                st_ = []
                if r.random() < 0.45:
                    self.numeric_data = True          # with RESTORE in play every DATA item and READ target is numeric, so that any alignment is type-correct
                    st_.append(("restore", None) if r.random() < 0.4 else ("restore", -1 - r.randint(0, 5)))
                st_.append(self.read_stmt())
                self.add(st_)
                budget -= 1
            else:
                self.array_sweep()
                budget -= 6

    def array_sweep(self):
        """fill every element of an array with a value that encodes its subscripts, then read it back in another order: any aliasing of two elements shows"""
        r = self.r
        free = [v for v in self.loopvars if v not in self.used_loop]
        nums = [n for n in self.arrays if not n.endswith("$")]
        if not nums:
            return
        name = r.choice(nums)
        dims = self.arrays[name]
        if len(free) < len(dims) or len(dims) > 3:
            return
        vs = free[:len(dims)]
        code = None
        for v, w in zip(vs, [1, 13, 13 * 17][:len(dims)]):
            term = ("bin", "*", ("var", v), ("num", str(w), float(w)))
            code = term if code is None else ("bin", "+", code, term)
        for v, ub in zip(vs, dims):
            self.add([("for", ("var", v), ("num", "0", 0.0), ("num", str(ub), float(ub)), None)])
        self.add([("let", ("arr", name, [("var", v) for v in vs]), ("bin", "+", code, ("num", "1", 1.0)))])
        for v in reversed(vs):
            self.add([("next", v)])
        acc = r.choice(NUMVARS)
        self.add([("let", ("var", acc), ("num", "0", 0.0))])
        for v, ub in zip(reversed(vs), reversed(dims)):
            self.add([("for", ("var", v), ("num", str(ub), float(ub)), ("num", "0", 0.0), ("un", "-", ("num", "1", 1.0)))])
        self.add([("let", ("var", acc), ("bin", "+", ("bin", "*", ("var", acc), ("num", "1.0001", 1.0001)), ("arr", name, [("var", v) for v in vs])))])
        for v in vs:
            self.add([("next", v)])
        self.add([("deliver", [("var", acc)])])

    def read_stmt(self):
        r = self.r
        n = r.randint(1, 3)
        tg = []
        self.read_types = getattr(self, "read_types", [])
        for _ in range(n):
            if r.random() < 0.75 or getattr(self, "numeric_data", False):
                tg.append(("var", r.choice(NUMVARS)))
                self.read_types.append("n")
            else:
                tg.append(("var", r.choice(STRVARS)))
                self.read_types.append("s")
        return ("read", tg)

    def program(self, size):
        r = self.r
        # arrays
        decl = []
        for name in r.sample(["arr", "q2", "tab", "nm$", "grid"], r.randint(0, 3)):
            dims = [r.randint(1, 5) for _ in range(r.choice([1, 1, 2, 3]))]
            self.arrays[name] = dims
            if r.random() < 0.8 or any(d > 10 for d in dims):
                decl.append((name, [("num", str(d), float(d)) for d in dims]))
            else:
                self.arrays[name] = [10] * len(dims)        # left to the automatic dimension of 10
        if decl:
            self.add([("dim", decl)])
        # every scalar starts from a non-trivial value (uninitialised variables are 0 / "", kept for a third of them)
        init = []
        for v in NUMVARS:
            if r.random() < 0.7:
                init.append(("let", ("var", v), lit(r) if r.random() < 0.8 else ("un", "-", lit(r))))
        for v in STRVARS:
            if r.random() < 0.7:
                init.append(("let", ("var", v), ("str", r.choice(WORDS))))
        for v in INTVARS:
            if r.random() < 0.7:
                k_ = r.randint(0, 5)
                init.append(("let", ("var", v), ("num", str(k_), float(k_))))
        r.shuffle(init)
        for k_ in range(0, len(init), 3):
            self.add(init[k_:k_ + 3])
        self.block(size)
        self.add([("deliver", [("var", v) for v in r.sample(NUMVARS, 3)] + [("var", r.choice(STRVARS))])])
        self.add([("save", ("var", r.choice(NUMVARS)))])
        self.add([("end",)])
        # subroutines (may call later ones)
        k = 0
        while k < len(self.subs):
            first = None
            start = len(self.lines)
            self.depth = 2
            self.block(r.randint(1, 3))
            self.add([("return",)])
            self.subs[k] = self.lines[start][0]
            k += 1
            if len(self.subs) > 6:
                break
        for k in range(len(self.subs)):
            if self.subs[k] is None:
                self.subs[k] = self.lines[-1][0]
        # data lines: typed to match the READs in textual order (cyclic), placed at random positions
        types = getattr(self, "read_types", [])
        data_lines = []
        if types:
            if getattr(self, "numeric_data", False):
                types = ["n"] * len(types)
            items = []
            for t in types * 3:
                items.append(self.nexpr(2) if t == "n" else ("str", r.choice(WORDS)))
            per = max(1, len(items) // r.randint(1, 3))
            chunks = [items[i:i + per] for i in range(0, len(items), per)]
            for ch in chunks:
                self.ln += 10
                self.lines.append([self.ln, [("data", ch)]])
                data_lines.append(self.ln)
        # resolve gosub placeholders
        def fix(st):
            if st[0] == "gosub" and st[1] < 0:
                return ("gosub", self.subs[-1 - st[1]])
            if st[0] == "restore" and st[1] is not None and st[1] < 0:
                return ("restore", data_lines[(-1 - st[1]) % len(data_lines)] if data_lines else None)
            if st[0] == "if":
                return ("if", st[1], [fix(s) for s in st[2]] if isinstance(st[2], list) else st[2], [fix(s) for s in st[3]] if isinstance(st[3], list) else st[3])
            return st
        return [(n, [fix(s) for s in stmts]) for n, stmts in self.lines]


def fix_literals(e):
    """numeric literal nodes built with a dummy value get the value of their text"""
    k = e[0]
    if k == "num":
        return ("num", e[1], float(e[1]))
    if k in ("str", "var"):
        return e
    if k == "arr":
        return ("arr", e[1], [fix_literals(i) for i in e[2]])
    if k == "par":
        return ("par", fix_literals(e[1]))
    if k == "un":
        return ("un", e[1], fix_literals(e[2]))
    if k == "fn":
        return ("fn", e[1], [fix_literals(a) for a in e[2]])
    return ("bin", e[1], fix_literals(e[2]), fix_literals(e[3]))


def fix_stmt(st):
    k = st[0]
    if k == "let":
        return ("let", fix_literals(st[1]), fix_literals(st[2]))
    if k == "dim":
        return ("dim", [(n, [fix_literals(d) for d in dims]) for n, dims in st[1]])
    if k == "if":
        f = lambda b: [fix_stmt(s) for s in b] if isinstance(b, list) else b
        return ("if", fix_literals(st[1]), f(st[2]), f(st[3]))
    if k in ("ongoto", "ongosub"):
        return (k, fix_literals(st[1]), st[2])
    if k == "for":
        return ("for", st[1], fix_literals(st[2]), fix_literals(st[3]), fix_literals(st[4]) if st[4] is not None else None)
    if k == "while":
        return ("while", fix_literals(st[1]))
    if k == "data":
        return ("data", [fix_literals(e) for e in st[1]])
    if k == "read":
        return ("read", [fix_literals(t) for t in st[1]])
    if k == "put":
        return ("put", (st[1][0], fix_literals(st[1][1])), [fix_literals(a) for a in st[2]])
    if k == "deliver":
        return ("deliver", [fix_literals(e) for e in st[1]])
    if k == "save":
        return ("save", fix_literals(st[1]))
    return st


def make_program(ctx, case):
    """a valid program (the reference evaluates it) or None"""
    for attempt in range(40):
        r = ctx.rng("prog", case["i"], attempt)
        g = Gen(r)
        size = r.choice([3, 5, 8, 12, 20, 30] if ctx.tier == "quick" else [3, 5, 8, 12, 20, 30, 60])
        try:
            lines = g.program(size)
        except (IndexError, ValueError, RecursionError):
            continue
        lines = [(n, [fix_stmt(s) for s in st]) for n, st in lines]
        ref = Ref(lines)
        try:
            out = ref.run()
        except (BasicError, OverflowError, ValueError, ZeroDivisionError, RecursionError):
            continue
        if not out:
            continue
        # conditioning: the engine's libm may differ from the reference's in the last place of a transcendental result; a program that turns such a
        # difference into more than 1e-13 relative (cancellation, MOD, a comparison or FLOOR at an edge) cannot be judged at 1e-12 and is not used
        stable = True
        for kb in (3, -3):
            try:
                rb = Ref(lines, ulp_bias=kb)
                ob = rb.run()
            except (BasicError, OverflowError, ValueError, ZeroDivisionError, RecursionError):
                stable = False
                break
            if len(ob) != len(out) or any(a[0] != b[0] for a, b in zip(out, ob)) or not close13(rb.saved, ref.saved):
                stable = False
                break
            for (ta, va), (tb, vb) in zip(out, ob):
                if (ta == "s" and va != vb) or (ta == "n" and not close13(va, vb)):
                    stable = False
                    break
            if not stable:
                break
        if not stable:
            continue
        # a value that sits at a floor / sign / comparison edge of round-off would make the verdict depend on the last bit: keep the program, the comparison has a tolerance
        return lines, out, ref.saved, attempt
    return None


# ------------------------------------------------------------------------------------------------------------------ hosts
BASE = "SOLUTION 1\n temp 25\n pH 7\n Na 1\n Cl 1\n"


def host_input(lines, host, r, nout, kinds):
    prog = render_program(lines, host, r)
    body = "".join(" " + l + "\n" for l in prog)
    reader = "".join(" %d PUNCH %s(%d)\n" % (100 + k, "GET$" if kinds[k] == "s" else "GET", 9001 + k) for k in range(nout))
    heads = " ".join("v%d" % (k + 1) for k in range(nout))
    so = "SELECTED_OUTPUT 1\n -reset false\n -high_precision true\n"
    if host == "punch":
        return BASE + so + "USER_PUNCH 1\n -headings " + heads + "\n -start\n" + body + " -end\nEND\n"
    if host == "print":
        return BASE + "USER_PRINT\n -start\n" + body + " -end\nEND\n"
    if host == "rates":
        return (BASE + so + "RATES\n c17rate\n -start\n" + body + " -end\nKINETICS 1\n c17rate\n  -formula NaCl 0\n  -m0 1\n  -m 1\n -steps 1\n -bad_step_max 100\n"
                "USER_PUNCH 1\n -headings " + heads + "\n -start\n" + reader + " -end\nEND\n")
    return (BASE + so + "CALCULATE_VALUES\n c17cv\n -start\n" + body + " -end\nUSER_PUNCH 1\n -headings cv " + heads + "\n -start\n 10 cvx = CALC_VALUE(\"c17cv\")\n 20 PUNCH cvx\n" + reader + " -end\nEND\n")


def close13(a, b):
    return a == b or abs(a - b) <= 1e-13 * max(abs(a), abs(b))


def close(a, b):
    if a == b:
        return True
    return abs(a - b) <= 1e-12 * max(abs(a), abs(b)) + 1e-300


def compare(ref_out, got, host, case_id):
    """got: list of ('n', float) / ('s', str)"""
    if len(got) != len(ref_out):
        return "%s: %s delivered %d values, the reference %d" % (case_id, host, len(got), len(ref_out))
    for k, ((tk, rv), (gk, gv)) in enumerate(zip(ref_out, got)):
        if tk == "n":
            if gk != "n" or not close(rv, gv):
                return "%s: %s value %d is %r, the reference gives %r" % (case_id, host, k + 1, gv, rv)
        else:
            if gk != "s" or gv != rv:
                return "%s: %s string %d is %r, the reference gives %r" % (case_id, host, k + 1, gv, rv)
    return None


def cells_to_values(so, kinds, skip=0):
    """last row of the selected-output table -> delivered list"""
    if not so or len(so["cells"]) < 2:
        return None
    row = so["cells"][-1][skip:]
    out = []
    for k, c in enumerate(row[:len(kinds)]):
        if kinds[k] == "s":
            out.append(("s", (c[1] if c[0] == "s" else repr(c[1])) if len(c) > 1 else "<empty cell>"))
        else:
            out.append(("n", float(c[1])) if c[0] in "dl" and len(c) > 1 else ("s", c[1] if len(c) > 1 else "<empty cell>"))
    return out


def gen_cases(ctx):
    n = ctx.params.get("cases") or (300 if ctx.tier == "quick" else 6000)
    for i in range(n):
        yield dict(id="bas%05d" % i, i=i, kind="valid" if i % 3 else "malformed")


# ------------------------------------------------------------------------------------------------------------------ malformed programs
def malform(lines, r):
    """(kind, lines') : one construct made invalid on the executed path (inserted as the first executed statements)"""
    kinds = ["type-mismatch-add", "type-mismatch-assign", "goto-missing-line", "return-without-gosub", "next-without-for", "wend-without-while", "read-out-of-data", "subscript-beyond-dim",
             "dim-twice", "for-without-next", "string-in-if", "negative-fractional-power", "on-goto-missing-line", "string-function-on-number",
             "negative-subscript", "negative-subscript-computed", "negative-subscript-read"]
    kind = r.choice(kinds)
    first = lines[0][0]
    bad = {
        "type-mismatch-add": [("let", ("var", "a"), ("bin", "+", ("num", "1", 1.0), ("str", "x")))],
        "type-mismatch-assign": [("let", ("var", "s$"), ("num", "3", 3.0))],
        "goto-missing-line": [("goto", 31999)],
        "return-without-gosub": [("return",)],
        "next-without-for": [("next", "i")],
        "wend-without-while": [("wend",)],
        "read-out-of-data": [("restore", None), ("read", [("var", "a")] * 400)],
        "subscript-beyond-dim": [("dim", [("zarr", [("num", "3", 3.0)])]), ("let", ("arr", "zarr", [("num", "4", 4.0)]), ("num", "1", 1.0))],
        "dim-twice": [("dim", [("zarr", [("num", "3", 3.0)])]), ("dim", [("zarr", [("num", "3", 3.0)])])],
        # subscripts are rounded to the nearest integer (floor(x + 0.5)): -1 and -0.6 are below the first element
        "negative-subscript": [("dim", [("zarr", [("num", "3", 3.0)])]), ("let", ("arr", "zarr", [("un", "-", ("num", "1", 1.0))]), ("num", "1", 1.0))],
        "negative-subscript-computed": [("dim", [("zarr", [("num", "3", 3.0)])]), ("let", ("var", "zz8"), ("num", "0.4", 0.4)),
                                        ("let", ("arr", "zarr", [("bin", "-", ("var", "zz8"), ("num", "1", 1.0))]), ("num", "1", 1.0))],
        "negative-subscript-read": [("dim", [("zarr", [("num", "3", 3.0)])]), ("let", ("var", "a"), ("arr", "zarr", [("un", "-", ("num", "2", 2.0))]))],
        "for-without-next": [("for", ("var", "zz9"), ("num", "5", 5.0), ("num", "1", 1.0), None)],
        "string-in-if": [("if", ("str", "abc"), [("let", ("var", "a"), ("num", "1", 1.0))], None)],
        "negative-fractional-power": [("let", ("var", "a"), ("bin", "^", ("un", "-", ("num", "2", 2.0)), ("num", "0.5", 0.5)))],
        "on-goto-missing-line": [("ongoto", ("num", "1", 1.0), [31998])],
        "string-function-on-number": [("let", ("var", "a"), ("fn", "len", [("num", "5", 5.0)]))],
    }[kind]
    newl = [(max(1, first - 1) if first > 1 else 1, bad)]
    if first <= 1:
        newl = [(1, bad)]
        rest = [(n + 1, st) for n, st in lines]
        # line numbers referenced by GOTO etc. would shift: only use this path when nothing refers to lines (rare); otherwise renumber is not needed because first > 1 almost always
        return kind, newl + rest
    return kind, newl + lines


TEXT_BREAKS = ["drop-then", "unbalanced-paren", "unterminated-string", "unknown-statement", "two-operators", "missing-operand", "bad-number"]


def text_break(prog_lines, r):
    kind = r.choice(TEXT_BREAKS)
    lines = list(prog_lines)
    ins = {"drop-then": "IF a > 1 a = 2", "unbalanced-paren": "a = (1 + 2 * (3 - 1)", "unterminated-string": 's$ = "abc', "unknown-statement": "FROBNICATE a, 3", "two-operators": "a = 1 + * 2",
           "missing-operand": "a = 3 *", "bad-number": "a = ..9"}[kind]
    n0 = int(lines[0].split()[0])
    lines.insert(0, "%d %s" % (max(1, n0 - 1), ins))
    return kind, lines


def token_mutation(prog_lines, r):
    lines = list(prog_lines)
    for _ in range(r.randint(1, 3)):
        k = r.randrange(len(lines))
        toks = lines[k].split(" ")
        if len(toks) < 3:
            continue
        op = r.random()
        j = r.randrange(1, len(toks))
        if op < 0.3:
            del toks[j]
        elif op < 0.5:
            toks.insert(j, toks[j])
        elif op < 0.7 and j + 1 < len(toks):
            toks[j], toks[j + 1] = toks[j + 1], toks[j]
        elif op < 0.85:
            toks[j] = r.choice(["(", ")", ",", ":", '"', "THEN", "NEXT", "^", "-", "1e999", "$", "GOSUB", "ELSE", "RETURN", "DATA", "%", "A" * 300, "9" * 400, "MID$(", "STR_F$(1,3000,2000)", "PAD(s$,100000)", "CHR$(0)", "DIM q9(100000,100000)"])
        else:
            lines[k] = lines[k][:r.randrange(1, len(lines[k]))]
            continue
        lines[k] = " ".join(toks)
    return lines


# ------------------------------------------------------------------------------------------------------------------ the case
def run_case(ctx, case):
    mp = make_program(ctx, case)
    if mp is None:
        return Result(INCONCLUSIVE, reason="no valid program found by the generator")
    lines, ref_out, ref_saved, attempt = mp
    kinds = [t for t, _ in ref_out]
    r = ctx.rng("render", case["i"])
    if case["kind"] == "valid":
        return run_valid(ctx, case, lines, ref_out, ref_saved, kinds, r)
    return run_malformed(ctx, case, lines, ref_out, kinds, r)


def dialect_retry(lines):
    """the same program under the engine's MOD (remainder of |a| + 1e-14)"""
    try:
        ref = Ref(lines, mod_fudge=True)
        return ref.run(), ref.saved
    except (BasicError, OverflowError, ValueError, ZeroDivisionError, RecursionError):
        return None, None


def same_out(a, b):
    if len(a) != len(b):
        return False
    for (ta, va), (tb, vb) in zip(a, b):
        if ta != tb or (ta == "s" and va != vb) or (ta == "n" and not close13(va, vb)):
            return False
    return True


def run_valid(ctx, case, lines, ref_out, ref_saved, kinds, r):
    cwd = ctx.scratch(case["id"])
    flav = "asan" if case["i"] % 3 == 1 else "opt"
    # the engine computes a MOD b as fmod(|a| + 1e-14, b) (open known finding).  A program whose standard evaluation does not change under that formula is judged
    # against the standard reference; one that does change (exact multiples, loop bounds, comparisons fed by MOD) is judged against the evaluation with the
    # engine's formula - any other deviation is still a violation - and is reported once under the known finding
    uses_mod = "'mod'" in repr(lines)
    exp_out, exp_saved, sensitive = ref_out, ref_saved, False
    if uses_mod:
        alt_out, alt_saved = dialect_retry(lines)
        if alt_out is None:
            return Result(INCONCLUSIVE, reason="the program has a run-time error when MOD is computed the engine's way")
        if not same_out(alt_out, ref_out) or not close13(alt_saved, ref_saved):
            exp_out, exp_saved, sensitive = alt_out, alt_saved, True
    kinds = [t for t, _ in exp_out]
    s = core.Script()
    hosts = ["punch", "print", "rates", "calc"]
    for h in hosts:
        rr = ctx.rng("render", case["i"], h)
        s.raw("new %s" % h)
        s.raw("loaddb %s %s" % (h, os.path.join(ctx.db, "phreeqc.dat")))
        s.raw("set %s OutputStringOn 1" % h)
        s.run(h, host_input(lines, h, rr, len(exp_out), kinds))
        s.raw("snap %s seow" % h)
    run = core.run_vdrive(ctx.bin(flav), s.bytes(), cwd, timeout=300)
    pf = core.process_failure(run)
    if pf:
        if pf[0] in ("timeout", "harness"):
            return Result(INCONCLUSIVE, reason="%s: %s" % (pf[0], (pf[2] or "")[:120]))
        return Result(VIOLATED, key="C17/%s" % pf[1], what="%s: valid program, process ended abnormally: %s" % (case["id"], (pf[2] or "")[:2000]), sample=dict(id=case["id"], program=render_program(lines, "punch", r)[:60]))
    rr_, sn = core.rets(run, "run"), core.rets(run, "snap")
    if len(rr_) < 4 or len(sn) < 4:
        return Result(INCONCLUSIVE, reason="incomplete record")
    findings, sigs = [], set()
    for k, h in enumerate(hosts):
        if rr_[k].get("r") != 0:
            et = " ".join(sn[k]["error"].get("text", "").split())[:160]
            findings.append(("C17/valid-program-rejected/" + h, "%s: valid program fails in %s: %s" % (case["id"], h, et)))
            continue
        if h == "print":
            out = sn[k]["output"].get("text", "")
            got = []
            for m in re.finditer(r"C17N\s+(\S+)|C17S\[(.*?)\]", out):
                if m.group(1) is not None:
                    try:
                        got.append(("n", float(m.group(1))))
                    except ValueError:
                        got.append(("s", m.group(1)))
                else:
                    got.append(("s", m.group(2)))
        else:
            so = [x for x in sn[k]["selout"] if x["n"] == 1]
            got = cells_to_values(so[0] if so else None, kinds, skip=1 if h == "calc" else 0)
            if got is None:
                findings.append(("C17/no-values/" + h, "%s: %s produced no selected-output row" % (case["id"], h)))
                continue
            if h == "calc":
                cv = so[0]["cells"][-1][0]
                if cv[0] not in "dl" or not close(float(cv[1]), exp_saved):
                    findings.append(("C17/value/save/" + h, "%s: CALC_VALUE returns %r, the reference SAVE value is %r" % (case["id"], cv[1] if len(cv) > 1 else None, exp_saved)))
        msg = compare(exp_out, got, h, case["id"])
        if msg:
            findings.append(("C17/value/" + h, msg))
        else:
            sigs.add("%s|%s" % (h, hashlib.sha1(repr(exp_out).encode()).hexdigest()[:10]))
    if sensitive and not findings:
        k_ = min(len(ref_out), len(exp_out))
        d_ = [i for i in range(k_) if ref_out[i] != exp_out[i]]
        findings.append(("C17/mod-fudge/program", "%s: all four hosts deliver the values of the evaluation with MOD computed as fmod(|a| + 1e-14, b); the standard evaluation differs (%d vs %d values%s)" % (
            case["id"], len(exp_out), len(ref_out), (", first at value %d: %r vs %r" % (d_[0] + 1, exp_out[d_[0]][1], ref_out[d_[0]][1])) if d_ else "")))
    feats = sorted(set(st[0] for _, sts in lines for st in sts))
    sample = dict(id=case["id"], lines=len(lines), statements=feats, delivered=len(exp_out), flavour=flav, mod_sensitive=sensitive)
    stats = {"n_programs": 1, "n_values_compared": len(exp_out) * 4, "n_lines": len(lines), "n_mod_sensitive_programs": 1 if sensitive else 0}
    if findings:
        k_, w_ = findings[0]
        sample["program"] = render_program(lines, "punch", ctx.rng("render", case["i"], "punch"))[:60]
        return Result(VIOLATED, key=k_, what=w_, findings=findings[1:], sigs=sigs, sample=sample, stats=stats)
    return Result(HELD, sigs=sigs, sample=sample, stats=stats)


def run_malformed(ctx, case, lines, ref_out, kinds, r):
    cwd = ctx.scratch(case["id"])
    mode = r.random()
    host = r.choice(["punch", "print", "rates", "calc"])
    expect_error = True
    if mode < 0.45:
        kind, bad = malform(lines, r)
        text = host_input(bad, host, ctx.rng("render", case["i"], host), len(ref_out), kinds)
    elif mode < 0.75:
        prog = render_program(lines, host, ctx.rng("render", case["i"], host))
        kind, prog = text_break(prog, r)
        text = host_text_from_lines(prog, host, len(ref_out), kinds)
    else:
        prog = render_program(lines, host, ctx.rng("render", case["i"], host))
        prog = token_mutation(prog, r)
        kind, expect_error = "token-mutation", False
        text = host_text_from_lines(prog, host, len(ref_out), kinds)
    s = core.Script()
    s.raw("new a")
    s.raw("loaddb a " + os.path.join(ctx.db, "phreeqc.dat"))
    s.raw("set a OutputStringOn 1")        # USER_PRINT only runs when something is printed
    s.run("a", text)
    s.raw("snap a ew")
    # the instance must stay usable once the offending programs are replaced
    s.run("a", BASE + "USER_PUNCH 1\n -headings ok\n -start\n 10 PUNCH 1\n -end\nUSER_PRINT\n -start\n 10 REM\n -end\nRATES\n c17rate\n -start\n 10 SAVE 0\n -end\nCALCULATE_VALUES\n c17cv\n -start\n 10 SAVE 0\n -end\nEND\n")
    run = core.run_vdrive(ctx.bin("asan"), s.bytes(), cwd, timeout=40)
    sample = dict(id=case["id"], malformed=kind, host=host)
    pf = core.process_failure(run)
    if pf:
        if pf[0] in ("timeout", "harness"):
            return Result(INCONCLUSIVE, reason="%s: %s" % (pf[0], (pf[2] or "")[:120]))
        sample["input"] = text[-1500:]
        return Result(VIOLATED, key="C17/%s" % pf[1], what="%s (%s in %s): process ended abnormally: %s" % (case["id"], kind, host, (pf[2] or "")[:2000]), sample=sample)
    rr_, sn = core.rets(run, "run"), core.rets(run, "snap")
    if len(rr_) < 2 or not sn:
        return Result(INCONCLUSIVE, reason="incomplete record")
    et = sn[0]["error"].get("text", "")
    stats = {"n_malformed": 1}
    first = " ".join(et.split())[:60]
    sigs = {"%s|%s|%s" % (kind, host, re.sub(r"\d+", "#", first))}
    if rr_[1].get("r") != 0:
        return Result(VIOLATED, key="C17/instance-unusable-after-basic-error", what="%s: after the failed run (%s in %s) a plain SOLUTION run returns %r" % (case["id"], kind, host, rr_[1].get("r")), sample=sample, stats=stats)
    if expect_error and rr_[0].get("r") == 0:
        sample["input"] = text[-1500:]
        return Result(VIOLATED, key="C17/malformed-accepted/%s" % kind, what="%s: a program with %s on its executed path runs without error in %s" % (case["id"], kind, host), sample=sample, sigs=sigs, stats=stats)
    if rr_[0].get("r") != 0 and not et.strip():
        return Result(VIOLATED, key="C17/error-without-text/%s" % kind, what="%s: the run fails (%r) but the error string is blank" % (case["id"], rr_[0].get("r")), sample=sample, sigs=sigs, stats=stats)
    return Result(HELD, sigs=sigs, sample=sample, stats=stats)


def host_text_from_lines(prog, host, nout, kinds):
    body = "".join(" " + l + "\n" for l in prog)
    reader = "".join(" %d PUNCH %s(%d)\n" % (100 + k, "GET$" if kinds[k] == "s" else "GET", 9001 + k) for k in range(nout))
    heads = " ".join("v%d" % (k + 1) for k in range(nout))
    so = "SELECTED_OUTPUT 1\n -reset false\n -high_precision true\n"
    if host == "punch":
        return BASE + so + "USER_PUNCH 1\n -headings " + heads + "\n -start\n" + body + " -end\nEND\n"
    if host == "print":
        return BASE + "USER_PRINT\n -start\n" + body + " -end\nEND\n"
    if host == "rates":
        return BASE + so + "RATES\n c17rate\n -start\n" + body + " -end\nKINETICS 1\n c17rate\n  -formula NaCl 0\n  -m0 1\n  -m 1\n -steps 1\nUSER_PUNCH 1\n -headings " + heads + "\n -start\n" + reader + " -end\nEND\n"
    return BASE + so + "CALCULATE_VALUES\n c17cv\n -start\n" + body + " -end\nUSER_PUNCH 1\n -headings cv " + heads + "\n -start\n 10 cvx = CALC_VALUE(\"c17cv\")\n 20 PUNCH cvx\n" + reader + " -end\nEND\n"
