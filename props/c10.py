"""C10 - captured reaction state can be re-instated without changing behaviour.

Monitor (differential, same binary):  P1: state input -> DUMP -all (d1); in-memory copies of all cells into two fresh
instances (storage bin, binary serialisation); follow-up calculations on the original and on each copy.
P2: fresh instance + same database additions reads d1 -> no errors -> DUMP (d2) -> same follow-ups.  P3: reads d2 -> d3.
Oracle: d2 == d3 textually (fixed point after at most one cycle), every follow-up table equal (1e-7) between the
original and each restored instance; P4: each solution restored only through SOLUTION_MODIFY of totals/total_h/total_o/cb
gives the same follow-up.
"""
import os
import re

from vlib import core, gens
from vlib.core import Result, HELD, VIOLATED, INCONCLUSIVE

PROP = "C10"
FLAVOURS = ["opt", "asan"]
RULE = ("states: seeded rich states (1-3 cells; solution with optional isotopes/pressure + subsets of equilibrium phases, exchange, surfaces of all "
        "electrostatic models, gas phase fixed P/V, solid solutions, kinetics RK/CVODE, reaction, temperature, pressure, mix; optionally run once) and "
        "generated multi-simulation chains; non-trivial = dump->read->dump completed and >=1 follow-up row compared; distinct = set of RAW option names in the dump")
ASSUME = ["both members of every comparison use KNOBS -convergence_tolerance 1e-12",
          "in-memory copies are judged by follow-up results, not by dump text (the serializer drops descriptions by design)",
          "one case in six runs under ASan+UBSan",
          "tolerance 1e-7 relative as stated, except measured solver-noise floors: pH 5e-6 abs, Alk/charge 1e-10 abs, gas pressure/moles 5e-5 rel, sorbed species 2e-6 rel; delta columns (d_*) are skipped",
          "states are free of redox-active trace elements/gases (a floating pe makes results discontinuous in the 14th digit of total_o)",
          "solution isotopes cannot be read back (known finding C10/read-back-errors/solution-isotopes)"]

DUMP = "DUMP\n -all\nEND\n"
COLLECT = None


def gen_cases(ctx):
    n = ctx.params.get("cases") or (150 if ctx.tier == "quick" else 3000)
    for i in range(n):
        r = ctx.rng("case", i)
        yield dict(id="s%05d" % i, sseed=r.randrange(1 << 30), kind=r.choice(["rich", "rich", "rich", "chain"]), flavour="asan" if i % 6 == 5 else "opt")


def _state(ctx, case):
    # a floating pe makes follow-up results a discontinuous function of the 14th digit of total_o (the RAW text has 14 digits),
    # so states are kept free of redox-active trace elements and gases
    gens.REDOX_FREE = True
    r = ctx.rng("state", case["sseed"])
    if case["kind"] == "rich":
        prelude, text, cells, kinds = gens.rich_state(r)
    else:
        prelude, text, cells, kinds = gens.PRELUDE, gens.multi_sim_input(r, selout=False), [1, 2, 3], ["chain", "react", "mix"]
        text = text.replace(gens.RATE_SIMPLE, "")
    return prelude, text, cells, kinds


HYGIENE = ("KNOBS\n -convergence_tolerance 1e-12\n -iterations 300\n -tolerance 1e-16\n -step_size 100\n -pe_step_size 10\n -diagonal_scale false\n"
           "INCREMENTAL_REACTIONS false\nPRINT\n -selected_output true\n")


def _followups(cells):
    """follow-up inputs restate every run-time setting that is not part of the reaction state (KNOBS, PRINT, INCREMENTAL_REACTIONS),
    so that original and restored instances differ in the reaction state only"""
    cs = "%d-%d" % (cells[0], cells[-1]) if len(cells) > 1 else "%d" % cells[0]
    f = [("run_cells", HYGIENE + gens.FOLLOW_SELOUT + "RUN_CELLS\n -cells %s\n -time_step 500\nEND\n" % cs),
         ("react", HYGIENE + "USE solution %d\nREACTION 77\n NaCl 1 HCl 0.1\n 0.5 1 mmol\nEND\n" % cells[0])]
    return f


def _snap_tables(run, tag):
    for r in run["records"]:
        if r["ev"] == "ret" and r["op"] == "snap" and r.get("tag") == tag:
            return r
    return None


SKIP_COLS = ("d_", "dk_")     # deltas of reactant amounts: differences of large numbers, judged through the amounts themselves


def _tol(head):
    """(relative, absolute) tolerance per column. 1e-7 relative is the statement's figure; columns that are small differences of
    large terms or that the solver itself only fixes to ~1e-6 (measured between an exact in-memory copy and its original on the
    unchanged tree: gas pressure 1e-7..1e-6, surface species 5e-7, pH 7e-7 absolute) get the measured noise floor instead."""
    if head in ("pH", "pe"):
        return 1e-7, 5e-6
    if head.startswith(("Alk", "charge", "pct_err")):
        return 1e-6, 1e-10      # alkalinity is a difference of large terms: 3e-7 relative measured between a 14-digit restored state and its original
    if head in ("pressure", "total mol", "volume") or head.startswith("g_") or head.endswith("(g)"):      # also a gas held as an equilibrium phase (1.7e-5 measured)
        return 5e-5, 1e-13      # measured between an exact in-memory copy and its original: up to 6.8e-6 (3000-case thorough tier)
    if head.startswith("m_"):
        return 2e-6, 1e-13
    return 1e-7, 1e-13


def _perturb_dump(d):
    """the dump text with the large inventories of every block (total_o / total_h of solutions, m / moles of reactants) moved by 3 units in the 14th digit:
    the RAW text carries 14-15 digits, so a restored state differs from the original by about that much in every number"""
    sign = {"-total_o": 1, "-total_h": -1, "-m": 1, "-moles": -1, "-initial_moles": 1}

    def f(m):
        try:
            v = float(m.group(3))
        except ValueError:
            return m.group(0)
        return "%s%s          %.15g" % (m.group(1), m.group(2), v * (1 + 3e-14 * sign[m.group(2)]))
    return re.sub(r"(?m)^(\s*)(-total_o|-total_h|-m|-moles|-initial_moles)[ \t]+(\S+)[ \t]*$", f, d)


def _cmp_tables(a, b, collect=None, noise=None):
    """a, b: snap records. returns (ok, detail, ncells).  noise: snap record of the same follow-up on a state that differs from b's in the 14th digit of the water
    composition; a difference between a and b that is no larger than 30 x what that digit does to the same cell is representation noise of the RAW text"""
    tz = {so["n"]: so for so in noise["selout"]} if noise else {}
    ta = {so["n"]: so for so in a["selout"]}
    tb = {so["n"]: so for so in b["selout"]}
    if sorted(ta) != sorted(tb):
        return False, "user numbers %s vs %s" % (sorted(ta), sorted(tb)), 0
    n = 0
    first = None
    for k in ta:
        ca, cb = ta[k]["cells"], tb[k]["cells"]
        if len(ca) != len(cb):
            return False, "user %d: %d vs %d rows" % (k, len(ca), len(cb)), n
        heads = [c[1] if c[0] == "s" else "?" for c in ca[0]] if ca else []
        for i, (ra, rb) in enumerate(zip(ca, cb)):
            if len(ra) != len(rb):
                return False, "user %d row %d: %d vs %d cells" % (k, i, len(ra), len(rb)), n
            for j, (x, y) in enumerate(zip(ra, rb)):
                if heads[j].startswith(SKIP_COLS):
                    continue
                n += 1
                if x == y:
                    continue
                if x[0] in "dl" and y[0] in "dl":
                    fx, fy = float(x[1]), float(y[1])
                    rel, ab = _tol(heads[j])
                    if abs(fx - fy) <= rel * max(abs(fx), abs(fy)) + ab:
                        continue
                    try:
                        z = tz[k]["cells"][i][j]
                        if z[0] in "dl" and abs(fx - fy) <= 30 * abs(fy - float(z[1])):
                            continue
                    except (KeyError, IndexError, ValueError):
                        pass
                    if collect is not None:
                        collect.append((heads[j], abs(fx - fy) / max(abs(fx), abs(fy)), fx))
                if first is None:
                    first = "user %d row %d col %d (%s): %s vs %s" % (k, i, j, heads[j], x, y)
                if collect is None:
                    return False, first, n
    if first:
        return False, first, n
    return True, "", n


def _proc(ctx, case, cwd, name, script, flavour):
    d = os.path.join(cwd, name)
    os.makedirs(d)
    run = core.run_vdrive(ctx.bin(flavour), script, d, timeout=200 if flavour == "asan" else 60)
    return run, core.process_failure(run)


def run_case(ctx, case):
    cwd = ctx.scratch(case["id"])
    prelude, text, cells, kinds = _state(ctx, case)
    fl = case["flavour"]
    dbp = os.path.join(ctx.db, "phreeqc.dat")
    fups = _followups(cells)
    lo, hi = cells[0], cells[-1]
    # ---------------------------------------------------------------- P1: original, dump, memory copies, follow-ups
    s = core.Script()
    for inst in ("a", "m", "z"):
        s.raw("new " + inst)
        s.raw("loaddb %s %s" % (inst, dbp))
        s.raw("set %s DumpStringOn 1" % inst)
        s.run(inst, prelude)
    s.raw("tag state")
    s.run("a", text)
    s.raw("snap a e")
    s.raw("tag dump1")
    s.run("a", DUMP)
    s.raw("snap a de")
    s.raw("tag memcopy")
    s.raw("memcopy a m storagebin_all 0 0")
    s.raw("memcopy a z serializer %d %d" % (0, max(hi, 9)))
    for inst in ("a", "m", "z"):
        for nm, ft in fups:
            s.raw("tag fu:%s:%s" % (inst, nm))
            s.run(inst, ft)
            s.raw("snap %s se" % inst)
    run1, pf = _proc(ctx, case, cwd, "p1", s.bytes(), fl)
    if pf:
        if pf[0] in ("timeout", "harness"):
            return Result(INCONCLUSIVE, reason="%s in P1: %s" % (pf[0], (pf[2] or "")[:150]))
        lc = (run1["last_call"] or {}).get("tag", "?")
        if lc in ("state", None, "?") and (run1["last_call"] or {}).get("inst") == "a" and lc == "state":
            return Result(INCONCLUSIVE, reason="state input crashed (C08 matter): %s" % pf[1])
        return Result(VIOLATED, key="C10/%s/%s" % (pf[1], lc.split(":")[0]), what="P1 ended abnormally at %s (kinds %s): %s" % (lc, kinds, pf[2][:2500]))
    recs = run1["records"]
    st = [r for r in recs if r["ev"] == "ret" and r["op"] == "run" and r.get("tag") == "state"]
    if not st or st[0].get("r") != 0:
        e = _snap_tables(run1, "state")
        return Result(INCONCLUSIVE, reason="state input has errors: " + ((e or {}).get("error", {}).get("text", "?").strip().split("\n")[0][:60]))
    d1rec = _snap_tables(run1, "dump1")
    d1 = d1rec["dump"].get("text", "")
    if not d1.strip():
        return Result(INCONCLUSIVE, reason="empty dump")
    mc = [r for r in recs if r["ev"] == "ret" and r["op"] == "memcopy"]
    if any("exc" in r for r in mc):
        return Result(VIOLATED, key="C10/memcopy-exception", what="in-memory copy threw: %s" % [r.get("exc") for r in mc])
    # follow-ups on the original must be error-free to serve as reference
    fu_ret = {r.get("tag"): r.get("r") for r in recs if r["ev"] == "ret" and r["op"] == "run" and r.get("tag", "").startswith("fu:")}
    opts = sorted(set(re.findall(r"^\s*(-[a-zA-Z_0-9]+)", d1, re.M)) | set(re.findall(r"^([A-Z_]+_RAW)", d1, re.M)))
    sample = dict(id=case["id"], kinds=kinds, cells=cells, dump_bytes=len(d1), raw_blocks=sorted(set(re.findall(r"^([A-Z_]+_RAW)", d1, re.M))), flavour=fl,
                  state_head=text[:400])
    findings = []
    ncmp = 0

    def bad(key, what):
        findings.append(("C10/" + key, "%s [case %s kinds=%s]" % (what, case["id"], kinds)))

    # ---------------------------------------------------------------- P2: read d1, dump d2, follow-ups ; P3: read d2, dump d3
    def reader(name, dump_text, with_followups):
        s2 = core.Script()
        s2.raw("new b")
        s2.raw("loaddb b " + dbp)
        s2.raw("set b DumpStringOn 1")
        s2.run("b", prelude)
        s2.raw("tag read")
        s2.run("b", dump_text)
        s2.raw("snap b ew")
        s2.raw("tag dump")
        s2.run("b", DUMP)
        s2.raw("snap b de")
        if with_followups:
            for nm, ft in fups:
                s2.raw("tag fu:b:%s" % nm)
                s2.run("b", ft)
                s2.raw("snap b se")
        return _proc(ctx, case, cwd, name, s2.bytes(), fl)

    run2, pf = reader("p2", d1, True)
    if pf:
        if pf[0] in ("timeout", "harness"):
            return Result(INCONCLUSIVE, reason="%s in P2" % pf[0])
        return Result(VIOLATED, key="C10/%s/read-back" % pf[1], what="reading the dump back ended abnormally: %s" % pf[2][:2500], sample=sample)
    rd = [r for r in run2["records"] if r["ev"] == "ret" and r["op"] == "run" and r.get("tag") == "read"]
    if rd[0].get("r") != 0:
        e = _snap_tables(run2, "read")
        et = e["error"].get("text", "")
        bad("read-back-errors" + ("/solution-isotopes" if "isotope" in et else ""), "reading DUMP text back returned %s: %s" % (rd[0].get("r"), et[:300]))
        k, w = findings[0]
        return Result(VIOLATED, key=k, what=w, sample=sample)
    d2 = _snap_tables(run2, "dump")["dump"].get("text", "")
    run3, pf = reader("p3", d2, False)
    if pf:
        if pf[0] in ("timeout", "harness"):
            return Result(INCONCLUSIVE, reason="%s in P3" % pf[0])
        return Result(VIOLATED, key="C10/%s/read-back2" % pf[1], what="reading the second dump back ended abnormally: %s" % pf[2][:2500], sample=sample)
    rd3 = [r for r in run3["records"] if r["ev"] == "ret" and r["op"] == "run" and r.get("tag") == "read"]
    if rd3[0].get("r") != 0:
        bad("read-back-errors", "reading the second-generation DUMP returned %s" % rd3[0].get("r"))
    d3 = _snap_tables(run3, "dump")["dump"].get("text", "")
    if d2 != d3:
        la, lb = d2.split("\n"), d3.split("\n")
        i = next((i for i, (x, y) in enumerate(zip(la, lb)) if x != y), min(len(la), len(lb)))
        ctxline = next((la[j] for j in range(i, -1, -1) if re.match(r"^[A-Z_]+_RAW", la[j])), "?") if la else "?"
        opt = (la[i].split() or ["?"])[0] if i < len(la) else "<length>"
        unsync_fp = ctxline.split()[0] == "EXCHANGE_RAW" and bool(_unsynchronised_related(d1))
        if not unsync_fp and ctxline.split()[0] == "EXCHANGE_RAW" and re.search(r"(?m)^\s+-(rate_name|phase_name)\s+\S", d1) and i < len(la) and i < len(lb):
            # an exchanger tied to a kinetic reactant or a mineral is rescaled to proportion x moles by every reader: the totals move in the last printed digit per cycle
            wa, wb = la[i].split(), lb[i].split()
            try:
                if len(wa) == 2 and len(wb) == 2 and wa[0] == wb[0] and abs(float(wa[1]) - float(wb[1])) <= 1e-12 * max(abs(float(wa[1])), abs(float(wb[1]))):
                    opt = "related-exchanger-last-digit"
            except ValueError:
                pass
        bad("not-a-fixed-point/%s/%s" % (ctxline.split()[0], "unsynchronised-related-exchanger" if unsync_fp else opt), "dump->read->dump is not a fixed point after one cycle: line %d %r vs %r (block %s)" % (
            i, la[i] if i < len(la) else None, lb[i] if i < len(lb) else None, ctxline))
    # ---------------------------------------------------------------- follow-up equality
    probe = {}
    failed_before = set()        # a follow-up that fails leaves requests pending that the next call of the same instance executes: later follow-ups of that instance are no reference
    for nm, _ in fups:
        ref = _snap_tables(run1, "fu:a:%s" % nm)
        if fu_ret.get("fu:a:%s" % nm) != 0:
            failed_before.add("a")
        if "a" in failed_before:
            continue
        for who, run, inst in (("dump-restored", run2, "b"), ("storagebin-copy", run1, "m"), ("serializer-copy", run1, "z")):
            other = _snap_tables(run, "fu:%s:%s" % (inst, nm))
            oret = [r for r in run["records"] if r["ev"] == "ret" and r["op"] == "run" and r.get("tag") == "fu:%s:%s" % (inst, nm)]
            if who == "serializer-copy" and ("react" in kinds or "mix" in kinds):
                continue     # REACTION / MIX are not part of what the serializer packs (documented entity kinds only)
            if inst in failed_before:
                continue
            if oret and oret[0].get("r") != 0:
                failed_before.add(inst)
                etxt = (other or {}).get("error", {}).get("text", "")
                if "has not converged" in etxt or "Numerical method failed" in etxt:
                    continue      # solver robustness from a 14-digit different starting point is not what the property is about
                bad("followup-fails/%s" % who, "follow-up %s succeeds on the original but returns %s on the %s instance: %s" % (
                    nm, oret[0].get("r"), who, (other or {}).get("error", {}).get("text", "")[:200]))
                continue
            ok, detail, n = _cmp_tables(ref, other, COLLECT)
            ncmp += n
            if not ok and who == "dump-restored":
                # conditioning probe: is the difference what the last digit of the RAW text does to this follow-up?
                if "pp" not in probe:
                    probe["pp"] = reader("pp", _perturb_dump(d1), True)[0]
                noise = _snap_tables(probe["pp"], "fu:b:%s" % nm)
                if noise:
                    ok, detail, _ = _cmp_tables(ref, other, COLLECT, noise=noise)
            if not ok:
                sub = ""
                diffs = []
                _cmp_tables(ref, other, diffs, noise=(_snap_tables(probe["pp"], "fu:b:%s" % nm) if (who == "dump-restored" and "pp" in probe) else None))
                if diffs and "rows" not in detail and "cells" not in detail and "user numbers" not in detail:
                    # numeric differences only, the largest of them at most 1e-3 relative: the follow-up depends that much on where the solver starts in this state
                    # (open known finding, rare); a lost or corrupted field shows as a larger or a structural difference and is reported
                    worst_rel = max(d_[1] for d_ in diffs)
                    if who == "dump-restored" and _unsynchronised_related(d1):
                        sub = "/unsynchronised-related-exchanger"      # the original carries an exchanger that is out of step with its kinetic reactant / mineral; reading the dump puts it in step (open known finding)
                    elif worst_rel <= 1e-3:
                        sub = "/small"
                    elif "SOLID_SOLUTIONS_RAW" in d1:
                        sub = "/solid-solution-state"      # with a solid solution present even an exact in-memory copy can end elsewhere than its original (open known finding, cf. C02): no numeric oracle there
                    detail += " (largest relative difference of %d differing cells: %.2e)" % (len(diffs), worst_rel)
                bad("followup-differs/%s%s" % (who, sub), "follow-up %s differs between original and %s instance: %s" % (nm, who, detail))
    # ---------------------------------------------------------------- SOLUTION_MODIFY restore of totals, total_h, total_o, cb
    sols = _parse_solutions(d1)
    if sols:
        k = sorted(sols)[0]
        so = sols[k]
        s4 = core.Script()
        for inst in ("o", "r"):
            s4.raw("new " + inst)
            s4.raw("loaddb %s %s" % (inst, dbp))
            s4.run(inst, prelude)
        s4.run("o", so["block"])
        # the restored instance starts from a *different* solution with the same T/P and gets only the conserved quantities
        # every other case: the target already holds every element of the original (so redox elements sit there in several valence states, with other amounts)
        # and the totals are given per element, the way a transport code hands them back; otherwise the totals go in valence by valence as dumped
        elementwise = ctx.rng("p4", case["id"]).random() < 0.5
        tot = list(so["totals"])
        start = " Na 0.01\n Cl 0.01\n"
        if elementwise:
            summed = {}
            for el, v in so["totals"]:
                base = el.split("(")[0]
                if base in ("H", "O") or el.startswith("["):
                    summed[el] = summed.get(el, 0.0) + float(v)      # H(0), O(0) and isotopes stay as dumped
                else:
                    summed[base] = summed.get(base, 0.0) + float(v)
            tot = [(el, "%.17g" % v) for el, v in summed.items()]
            try:
                mw = float(so.get("-mass_water", "1")) or 1.0
            except ValueError:
                mw = 1.0
            start = " units mol/kgw\n"
            for el, v in tot:
                if "(" not in el and not el.startswith("[") and v and float(v) > 0:
                    start += " %s %.6g\n" % (el, min(0.37 * float(v) / mw + 1e-7, 0.5))
            if not any(l.split()[0] == "Na" for l in start.split("\n")[1:] if l.split()):
                start += " Na 1e-5\n"
            if not any(l.split()[0] == "Cl" for l in start.split("\n")[1:] if l.split()):
                start += " Cl 1e-5\n"
        mod = "SOLUTION %d\n temp %s\n pressure %s\n pH 6\n%s water %s\nEND\n" % (k, so.get("-temp", "25"), so.get("-pressure", "1"), start, so.get("-mass_water", "1"))
        if elementwise:
            # a saved reaction result stores the redox elements valence by valence (S(-2) and S(6), C(-4) and C(4), ...): that is the state the element totals must replace
            mod += "USE solution %d\nREACTION 1\n NaCl 1\n 1e-6 mol\nSAVE solution %d\nEND\n" % (k, k)
        mod += "SOLUTION_MODIFY %d\n -total_h %s\n -total_o %s\n -cb %s\n -totals\n" % (k, so["-total_h"], so["-total_o"], so["-cb"])
        for el, v in tot:
            mod += "  %s %s\n" % (el, v)
        for el in ("Na", "Cl"):
            if el not in [e for e, _ in tot]:
                mod += "  %s 0\n" % el
        mod += "END\n"
        s4.run("r", mod)
        fu = HYGIENE + gens.FOLLOW_SELOUT + "USE solution %d\nREACTION 1\n NaCl 1\n 1e-4 mol\nEND\n" % k
        for inst in ("o", "r"):
            s4.raw("tag fu:" + inst)
            s4.run(inst, fu)
            s4.raw("snap %s se" % inst)
        run4, pf = _proc(ctx, case, cwd, "p4", s4.bytes(), fl)
        if pf and pf[0] not in ("timeout", "harness"):
            bad("%s/solution-modify" % pf[1], "SOLUTION_MODIFY restore ended abnormally: %s" % pf[2][:1500])
        elif not pf:
            rr = {r.get("tag"): r.get("r") for r in run4["records"] if r["ev"] == "ret" and r["op"] == "run" and r.get("tag", "").startswith("fu:")}
            if rr.get("fu:o") == 0:
                if rr.get("fu:r") != 0:
                    bad("followup-fails/solution-modify", "follow-up fails on the solution restored through SOLUTION_MODIFY")
                else:
                    ok, detail, n = _cmp_tables(_snap_tables(run4, "fu:o"), _snap_tables(run4, "fu:r"))
                    ncmp += n
                    if not ok:
                        bad("followup-differs/solution-modify", "solution %d restored via SOLUTION_MODIFY(%s totals,total_h,total_o,cb) behaves differently: %s" % (
                            k, "element" if elementwise else "valence", detail))
    sigs = [",".join(opts)] if ncmp else []
    stats = {"n_cells_compared": ncmp, "set_raw_options": opts, "n_dump_bytes": len(d1), "set_kinds": kinds}
    if findings:
        k, w = findings[0]
        return Result(VIOLATED, key=k, what=w, findings=findings[1:], sigs=sigs, sample=sample, stats=stats)
    return Result(HELD, sigs=sigs, sample=sample, stats=stats)


def _unsynchronised_related(dump):
    """numbers of EXCHANGE_RAW blocks in which a component tied to a kinetic reactant or a mineral does not hold proportion x moles of its partner
    (a batch reaction without SAVE updates a kinetic reactant in place but leaves the exchanger as it was: the state itself is out of step, and the first
    thing a reader of the dump does is to put it back in step).  Components without -phase_proportion are not judged here."""
    from props import c14
    blocks = c14.parse_dump(dump)
    out = set()
    for (kind, n), lines in blocks.items():
        if kind != "exchange":
            continue
        comp = None
        comps = []
        intot = False
        for ln in lines:
            w = ln.split()
            if w[0] == "-component":
                comp = {"tot": {}}
                comps.append(comp)
                intot = False
            elif comp is not None and w[0].startswith("-"):
                intot = w[0] == "-totals"
                if len(w) > 1:
                    comp[w[0]] = w[1]
            elif comp is not None and intot and len(w) >= 2:
                try:
                    comp["tot"][w[0]] = float(w[1])
                except ValueError:
                    pass
        for comp in comps:
            partner = None
            if comp.get("-rate_name") and "-phase_proportion" in comp:
                kl = blocks.get(("kinetics", n)) or []
                cur = None
                for ln in kl:
                    w = ln.split()
                    if w[0] == "-component":
                        cur = w[1] if len(w) > 1 else None
                    elif w[0] == "-m" and cur and cur.lower() == comp["-rate_name"].lower() and len(w) > 1:
                        partner = float(w[1])
            elif comp.get("-phase_name") and "-phase_proportion" in comp:
                pl = blocks.get(("equilibrium_phases", n)) or []
                cur = None
                for ln in pl:
                    w = ln.split()
                    if w[0] == "-component":
                        cur = w[1] if len(w) > 1 else None
                    elif w[0] == "-moles" and cur and cur.lower() == comp["-phase_name"].lower() and len(w) > 1:
                        partner = float(w[1])
            if partner is None:
                continue
            try:
                want = float(comp["-phase_proportion"]) * partner
            except ValueError:
                continue
            have = comp["tot"].get("X")
            if have is not None and abs(have - want) > 1e-6 * max(abs(have), abs(want), 1e-30):
                out.add(n)
    return out


def _parse_solutions(dump):
    """SOLUTION_RAW blocks: number -> dict(block text, options, totals list)"""
    out = {}
    blocks = re.split(r"(?m)^(?=[A-Z_]+_RAW\s)", dump)
    for b in blocks:
        m = re.match(r"SOLUTION_RAW\s+(-?\d+)", b)
        if not m:
            continue
        # cut trailing USE / other non-raw lines that follow the last block
        lines = []
        for ln in b.split("\n"):
            if ln.startswith("USE ") or ln.startswith("#"):
                break
            lines.append(ln)
        d = {"block": "\n".join(lines) + "\nEND\n", "totals": []}
        it = iter(lines[1:])
        intot = False
        for ln in it:
            w = ln.split()
            if not w:
                continue
            if w[0].startswith("-"):
                intot = w[0] == "-totals"
                if len(w) > 1:
                    d[w[0]] = w[1]
                continue
            if intot and len(w) >= 2:
                d["totals"].append((w[0], w[1]))
        if "-total_h" in d and "-total_o" in d and "-cb" in d:
            out[int(m.group(1))] = d
    return out
