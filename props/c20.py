"""C20 - surface complexation obeys site balance, electrostatic mass action and the charge laws.

Monitor: seeded SURFACE calculations (Hfo weak + strong sites of the database, random sites / area / mass, pH 3-11, ionic
strength 1e-4..1, sorbing ions, electrostatic models default diffuse-layer, -no_edl, -ccm, -donnan, -diffuse_layer with
thickness or debye lengths, -only_counter_ions, -cd_music); USER_PUNCH records LA and MOL of every surface species the
database defines, LA of the aqueous species in their reactions, EDL("psi" | "sigma" | "charge"), MU, EPS_R, TK, water mass;
for explicit diffuse layers DUMP supplies the balance of surface plus layer.
Oracle (database text parsed independently; constants F = 96493.5 C/mol, R = 8.3147 J/K/mol, eps0 = 8.854e-12):
 (1) per site type, site stoichiometry x moles of the surface species = sites defined (1e-8);
 (2) every surface species: sum nu*LA(products) - sum nu*LA(reactants) = log K(T) - dz * F psi / (R T ln 10) with dz the charge
     the reaction puts on the surface (psi = 0 for -no_edl), |residual| <= 1e-8;
 (3) sigma from the species charges equals EDL("sigma"); with a diffuse layer model and no explicit layer it equals the
     Gouy-Chapman value sqrt(8000 eps eps0 R T I) sinh(F psi / 2RT); with -ccm it equals C * psi (relative 1e-8);
 (4) explicit diffuse layer: the saved balance of surface plus layer is zero (1e-8 of the surface charge).
"""
import math
import os
import re

from vlib import core, gens, dbparse
from vlib.core import Result, HELD, VIOLATED, INCONCLUSIVE
from props import c01, c14

PROP = "C20"
FLAVOURS = ["opt"]
RULE = ("cases: seeded surfaces in phreeqc.dat and (one in four) wateq4f.dat with the redox sorbates As, Se, U at pe -3..13: Hfo_w (+ Hfo_s) sites 1e-5..5e-3 mol, area 50-800 m2/g, mass 0.05-5 g, waters of pH 3-11 and I 1e-4..1 "
        "with 0-4 sorbing ions (Ca Mg Sr Ba Zn Cd Pb Cu Mn S(6) P F), 9 electrostatic options, explicit composition or -equilibrate, optional REACTION. "
        "distinct & non-trivial = distinct (electrostatic option, site-type count, species whose mass action was evaluated)")
ASSUME = ["physical constants are the manual's / engine's (F = 96493.5, R = 8.3147, eps0 = 8.854e-12)", "surface-species activities follow the mole-fraction convention the manual defines; "
          "all database species are monodentate so the convention cancels inside each reaction", "CD-MUSIC with Hfo: only the site balance (the database gives no charge-distribution parameters for Hfo); one case in eight uses a goethite-like CD-MUSIC surface defined in the input and judges the two capacitor laws and the site balance",
          "runs that report an error are inconclusive",
          "with an explicit Donnan layer (-donnan, -only_counter_ions) the Gouy-Chapman relation is judged at 1e-5 relative + 1e-8 C/m2 instead of 1e-8: the layer's composition is iterated separately (measured residual up to 6e-6 relative / 8e-10 C/m2 near the point of zero charge)",
          "charge laws carry an absolute floor of 1e-11 C/m2 (thorough seed 8: sigma 3e-6 C/m2 next to the point of zero charge, off by 6e-13 C/m2 = 2e-7 relative)",
          "site balances carry an absolute floor of 1e-14 mol next to 1e-8 relative: the solver accepts a balance whose absolute residual is below KNOBS -tolerance (1e-15) whatever the total (model.cpp, residuals())"]

F_C = 96493.5
R_J = 8.3147
EPS0 = 8.854e-12
MODELS = ["ddl", "ddl", "no_edl", "ccm", "donnan", "donnan_debye", "diffuse_layer", "counter_only", "cd_music"]


def gen_cases(ctx):
    n = ctx.params.get("cases") or (200 if ctx.tier == "quick" else 5000)
    for i in range(n):
        yield dict(id="s%05d" % i, i=i, db="phreeqc.dat" if i % 4 else "wateq4f.dat")


def build(ctx, case, db):
    r = ctx.rng("surf", case["i"])
    f = gens.fmt
    model = r.choice(MODELS)
    ionic = gens.loguni(r, 1e-4, 1.0)
    ph = round(r.uniform(3, 11), 2)
    temp = 25 if r.random() < 0.6 else round(r.uniform(5, 60), 1)
    pool = ["Ca", "Mg", "Sr", "Ba", "Zn", "Cd", "Pb", "Cu", "Mn", "S(6)", "P", "F"]
    redox = case["db"] == "wateq4f.dat"
    if redox:
        # sorbates with several valence states (their surface species are written for one state; the model may carry the element in another, so the
        # rewritten reaction contains electrons): the redox potential decides which state dominates
        pool += ["As", "Se", "U", "As", "Se"]
    sorb = sorted(set(r.sample(pool, r.randint(0, 4))), key=pool.index)
    sol = "SOLUTION 1\n temp %s\n pH %s\n%s units mol/kgw\n Na %s\n Cl %s charge\n" % (f(temp), f(ph), (" pe %s\n" % f(round(r.uniform(-3, 13), 1))) if redox else "", f(ionic), f(ionic))
    for e in sorb:
        sol += " %s %s\n" % (e, f(gens.loguni(r, 1e-7, 1e-3)))
    w = gens.loguni(r, 1e-5, 5e-3)
    strong = w / r.choice([20, 40, 100]) if r.random() < 0.6 else None
    area, mass = r.choice([50, 100, 600, 800]), gens.loguni(r, 0.05, 5)
    s_ = "SURFACE 1\n -equilibrate 1\n Hfo_wOH %s %s %s\n" % (f(w), f(area), f(mass))
    if strong:
        s_ += " Hfo_sOH %s\n" % f(strong)
    cap = None
    if model == "no_edl":
        s_ += " -no_edl\n"
    elif model == "ccm":
        cap = r.choice([0.5, 1.0, 1.2, 2.9])
        s_ += " -ccm %s\n" % f(cap)
    elif model == "donnan":
        s_ += " -donnan %s\n" % f(r.choice([1e-8, 1e-9, 5e-9]))
    elif model == "donnan_debye":
        s_ += " -donnan debye_lengths %s\n" % f(r.choice([1, 2, 3]))
    elif model == "diffuse_layer":
        s_ += " -diffuse_layer %s\n" % f(r.choice([1e-8, 1e-9]))
    elif model == "counter_only":
        s_ += " -only_counter_ions true\n -donnan\n"
    elif model == "cd_music":
        s_ += " -cd_music\n -capacitances 1.0 5.0\n"
    react = ""
    if r.random() < 0.4:
        react = "USE solution 1\nUSE surface 1\nREACTION 1\n %s 1\n %s mol\nEND\n" % (r.choice(["HCl", "NaOH", "CaCl2", "NaCl"]), f(gens.loguni(r, 1e-5, 1e-3)))
    sites = {"Hfo_w": float(f(w))}
    if strong:
        sites["Hfo_s"] = float(f(strong))
    susp = [s2 for s2 in db.surface_species if any(k in sites for k in db.composition(s2, db.surface_species))]
    aq = set()
    for s2 in susp:
        for c, nm in db.surface_species[s2].terms:
            if nm not in db.surface_species:
                aq.add(nm)
    aq = sorted(a for a in aq if a in db.species or a in ("H2O", "e-"))
    heads = ["tk", "mu", "eps", "kgw", "psi", "sigma", "charge"]
    items = ["TK", "MU", "EPS_R", 'TOT("water")', 'EDL("psi", "Hfo")', 'EDL("sigma", "Hfo")', 'EDL("charge", "Hfo")']
    for s2 in susp:
        heads += ["la:%s" % s2, "mol:%s" % s2]
        items += ['LA("%s")' % s2, 'MOL("%s")' % s2]
    for a in aq:
        heads.append("la:%s" % a)
        items.append('LA("%s")' % a)
    prog, ln = [], 10
    for i in range(0, len(items), 6):
        prog.append(" %d PUNCH %s" % (ln, ", ".join(items[i:i + 6])))
        ln += 10
    if model in ("donnan", "donnan_debye", "diffuse_layer", "counter_only"):
        # what the explicit layer holds, species by species (EDL_SPECIES): its charge must cancel the surface charge
        NDL = 45
        heads.append("dl_n")
        prog.append(' %d ndl = 0 : tdl = EDL_SPECIES("Hfo", ndl, dln$, dlm, dla, dlt)' % ln)
        prog.append(" %d PUNCH ndl" % (ln + 10))
        ln += 20
        for i in range(1, NDL + 1):
            heads += ["dl_name%d" % i, "dl_mol%d" % i]
            prog.append(' %d IF (%d <= ndl) THEN PUNCH dln$(%d), dlm(%d) ELSE PUNCH "-", 0' % (ln, i, i, i))
            ln += 10
    sel = "SELECTED_OUTPUT 1\n -reset false\n -state true\nUSER_PUNCH 1\n -headings %s\n -start\n%s\n -end\n" % (" ".join(heads), "\n".join(prog))
    text = "KNOBS\n -convergence_tolerance 1e-12\n -iterations 400\n" + sel + sol + s_ + "SAVE surface 1\nEND\n" + react
    info = dict(model=model, sites=sites, area=area, mass=float(f(mass)), cap=cap, susp=susp, ph=ph, ionic=ionic, temp=temp, sorb=sorb)
    return text, info


def run_goe(ctx, case):
    """CD-MUSIC with a surface whose species distribute charge over the 0-, 1- and 2-plane (goethite-like definitions, gens.GOE_DEFS): the capacitor laws
    sigma0 = C1 (psi0 - psi1), sigma0 + sigma1 = C2 (psi1 - psi2), and the site balance, from the EDL read-outs"""
    r = ctx.rng("goe", case["i"])
    f = gens.fmt
    c1, c2 = r.choice([(0.98, 0.73), (1.0, 5.0), (1.1, 0.2), (0.85, 0.75), (2.0, 0.9), (0.9, 0.9)])
    ph, ionic = round(r.uniform(3.5, 10.5), 2), gens.loguni(r, 1e-3, 0.5)
    sites, area, mass = gens.loguni(r, 1e-4, 3e-3), r.choice([96, 45]), gens.loguni(r, 0.5, 5)
    text = ("KNOBS\n -convergence_tolerance 1e-12\n -iterations 400\n" + gens.GOE_DEFS +
            "SELECTED_OUTPUT 1\n -reset false\n -state true\nUSER_PUNCH 1\n -headings tk mu eps psi0 psi1 psi2 s0 s1 s2 kgw m0 m1 m2 m3 m4\n -start\n"
            ' 10 PUNCH TK, MU, EPS_R, EDL("psi", "Goe"), EDL("psi1", "Goe"), EDL("psi2", "Goe")\n 20 PUNCH EDL("sigma", "Goe"), EDL("sigma1", "Goe"), EDL("sigma2", "Goe"), TOT("water")\n'
            ' 30 PUNCH MOL("Goe_uniOH-0.5"), MOL("Goe_uniOH2+0.5"), MOL("Goe_uniOHNa+0.5"), MOL("Goe_uniOH2Cl-0.5"), MOL("Goe_uniOHCa+1.5")\n -end\n'
            "SOLUTION 1\n temp %s\n pH %s\n units mol/kgw\n Na %s\n Cl %s charge\n Ca %s\n" % (f(r.choice([25, 25, 15, 40])), f(ph), f(ionic), f(ionic), f(gens.loguni(r, 1e-5, 1e-3))) +
            "SURFACE 1\n -equilibrate 1\n Goe_uniOH-0.5 %s %s %s\n -capacitances %s %s\n -cd_music\nEND\n" % (f(sites), f(area), f(mass), f(c1), f(c2)))
    if r.random() < 0.5:
        text += "USE solution 1\nUSE surface 1\nREACTION 1\n %s 1\n %s mol\nEND\n" % (r.choice(["HCl", "NaOH", "NaCl"]), f(gens.loguni(r, 1e-5, 1e-3)))
    cwd = ctx.scratch(case["id"])
    s = core.Script()
    s.raw("new a")
    s.raw("loaddb a " + os.path.join(ctx.db, "phreeqc.dat"))
    s.run("a", text)
    s.raw("snap a se")
    run = core.run_vdrive(ctx.bin("opt"), s.bytes(), cwd, timeout=120)
    if core.process_failure(run):
        return Result(INCONCLUSIVE, reason="process failure")
    rr, sn = core.rets(run, "run"), core.rets(run, "snap")
    if not rr or rr[0].get("r") != 0 or not sn or not sn[0]["selout"]:
        et = (sn[0]["error"].get("text", "") if sn else "").strip().split("\n")[0]
        return Result(INCONCLUSIVE, reason="run reports errors: " + " ".join(et.split())[:45])
    cells = sn[0]["selout"][0]["cells"]
    hd = [c[1] for c in cells[0]]
    findings, sigs, nchk = [], set(), 0
    for row in cells[1:]:
        d = {h: (float(c[1]) if c[0] in "dl" else c[1]) for h, c in zip(hd, row)}
        if d.get("state") not in ("i_surf", "react"):
            continue
        try:
            tk, mu, eps, p0, p1, p2, s0, s1, s2, kgw = (d[k] for k in ("tk", "mu", "eps", "psi0", "psi1", "psi2", "s0", "s1", "s2", "kgw"))
        except KeyError:
            continue
        tag = "%s (C1 %g, C2 %g, pH %g, I %.3g, %s)" % (case["id"], c1, c2, ph, mu, d["state"])
        scale = max(abs(s0), abs(s1), abs(s2), 1e-6)
        nchk += 3
        if abs(s0 - c1 * (p0 - p1)) > 1e-5 * scale:
            findings.append(("C20/cd-music/inner-capacitor", "%s: sigma0 = %.9g C/m2 but C1 (psi0 - psi1) = %.9g" % (tag, s0, c1 * (p0 - p1))))
        if abs((s0 + s1) - c2 * (p1 - p2)) > 1e-5 * scale:
            findings.append(("C20/cd-music/outer-capacitor", "%s: sigma0 + sigma1 = %.9g C/m2 but C2 (psi1 - psi2) = %.9g" % (tag, s0 + s1, c2 * (p1 - p2))))
        # the closure at psi2 is the general Grahame equation over all ions (Ca+2 included), not the symmetric-electrolyte formula of the Dzombak-Morel model: not judged here
        tot = sum(d.get("m%d" % k, 0.0) for k in range(5)) * kgw
        want = float(f(sites))
        if abs(tot - want) > 1e-8 * want:
            findings.append(("C20/site-balance/Goe_uni", "%s: species hold %.12g mol of sites, %.12g defined" % (tag, tot, want)))
        sigs.add("cd_music_goe|%s|%s" % (d["state"], "eqcap" if c1 == c2 else "uneqcap"))
    if nchk == 0:
        return Result(INCONCLUSIVE, reason="no surface row")
    stats = {"n_checks": nchk}
    sample = dict(id=case["id"], model="cd_music_goe", capacitances=(c1, c2), ph=ph)
    if findings:
        k, w = findings[0]
        return Result(VIOLATED, key=k, what=w, findings=findings[1:], sigs=sigs, sample=sample, stats=stats)
    return Result(HELD, sigs=sigs, sample=sample, stats=stats)


def run_kin(ctx, case):
    """a surface whose sites and area belong to a kinetic reactant (Hfo_wOH <rate> kinetic_reactant sites/mol area/mol) while the reactant dissolves or grows:
    after every step the sites follow the reactant (site balance) and the charge density computed from the species and the *current* area
    (area/mol x KIN) obeys the charge law of the model (Gouy-Chapman, or C psi for -ccm) at the reported psi, I, eps, T"""
    r = ctx.rng("kinsurf", case["i"])
    f = gens.fmt
    db = c01.get_db(ctx, "phreeqc.dat")
    model = r.choice(["ddl", "ddl", "ccm"])
    cap = r.choice([0.8, 1.2, 2.9])
    m0 = gens.loguni(r, 3e-4, 3e-3)
    grow = False                                    # the reactant's formula (FeOOH) must cover the sites' H and O; it dissolves into a water without iron
    m_now = m0 * r.uniform(0.4, 1.6) if r.random() < 0.4 else m0      # -m differs from -m0: the surface belongs to what is there now
    T = gens.loguni(r, 200, 5000)
    frac = r.uniform(0.2, 0.8)                      # part of m0 that reacts over T
    rate = (-1 if grow else 1) * frac * min(m0, m_now) / T
    spm_w, spm_s, apm = round(r.uniform(0.05, 0.3), 3), r.choice([0.0, 0.005]), r.choice([5.34e4, 2e4, 8e4])
    nst = r.randint(2, 5)
    ph, ionic = round(r.uniform(4, 9.5), 2), gens.loguni(r, 1e-3, 0.3)
    susp = [s2 for s2 in db.surface_species if any(k in ("Hfo_w", "Hfo_s") for k in db.composition(s2, db.surface_species))]
    # keep to species whose aqueous partners are in this water
    have = {"H", "O", "Na", "Cl", "Ca", "Fe", "Hfo_w", "Hfo_s"}
    susp = [s2 for s2 in susp if set(db.composition(s2, db.surface_species)) <= have and (spm_s > 0 or "Hfo_s" not in db.composition(s2, db.surface_species))]
    heads = ["tk", "mu", "eps", "kgw", "psi", "sigma", "charge", "kin"] + ["mol:%s" % s2 for s2 in susp]
    items = ["TK", "MU", "EPS_R", 'TOT("water")', 'EDL("psi", "Hfo")', 'EDL("sigma", "Hfo")', 'EDL("charge", "Hfo")', 'KIN("surfrate")'] + ['MOL("%s")' % s2 for s2 in susp]
    prog, ln = [], 10
    for i in range(0, len(items), 6):
        prog.append(" %d PUNCH %s" % (ln, ", ".join(items[i:i + 6])))
        ln += 10
    text = ("KNOBS\n -convergence_tolerance 1e-12\n -iterations 400\nRATES\n surfrate\n -start\n 10 SAVE PARM(1) * TIME\n -end\n"
            "SELECTED_OUTPUT 1\n -reset false\n -state true\nUSER_PUNCH 1\n -headings %s\n -start\n%s\n -end\n" % (" ".join(heads), "\n".join(prog)) +
            "SOLUTION 1\n temp %s\n pH %s\n units mol/kgw\n Na %s\n Cl %s charge\n Ca %s\n" % (f(r.choice([25, 25, 15, 40])), f(ph), f(ionic), f(ionic), f(gens.loguni(r, 1e-5, 1e-3))) +
            "KINETICS 1\n surfrate\n -formula FeOOH 1\n -m0 %s\n -m %s\n -parms %s\n -tol 1e-10\n -steps %s in %d steps\n" % (f(m0), f(m_now), f(rate), f(T), nst) +
            "SURFACE 1\n -equilibrate 1\n Hfo_wOH surfrate kinetic_reactant %s %s\n" % (f(spm_w), f(apm)) + (" Hfo_sOH surfrate kinetic_reactant %s\n" % f(spm_s) if spm_s else "") +
            (" -ccm %s\n" % f(cap) if model == "ccm" else "") + "END\n")
    cwd = ctx.scratch(case["id"])
    s = core.Script()
    s.raw("new a")
    s.raw("loaddb a " + os.path.join(ctx.db, "phreeqc.dat"))
    s.run("a", text)
    s.raw("snap a se")
    run = core.run_vdrive(ctx.bin("opt"), s.bytes(), cwd, timeout=120)
    if core.process_failure(run):
        return Result(INCONCLUSIVE, reason="process failure")
    rr, sn = core.rets(run, "run"), core.rets(run, "snap")
    if not rr or rr[0].get("r") != 0 or not sn or not sn[0]["selout"]:
        et = (sn[0]["error"].get("text", "") if sn else "").strip().split("\n")[0]
        return Result(INCONCLUSIVE, reason="run reports errors: " + " ".join(et.split())[:45])
    cells = sn[0]["selout"][0]["cells"]
    hd = [c[1] for c in cells[0]]
    rows = [{h: (c[1] if c[0] == "s" else (float(c[1]) if c[0] in "dl" else None)) for h, c in zip(hd, row)} for row in cells[1:]]
    rrows = [d for d in rows if d.get("state") == "react"]
    if len(rrows) < 2:
        return Result(INCONCLUSIVE, reason="no reaction rows")
    findings, sigs, nchk, worst = [], set(), 0, 0.0
    for k, d in enumerate(rrows):
        m = d["kin"]
        if m is None or m <= 0:
            continue
        kgw, tk, mu, eps, psi = d["kgw"], d["tk"], d["mu"], d["eps"], d["psi"]
        mol = {h[4:]: v for h, v in d.items() if h.startswith("mol:") and v is not None}
        for site, spm in (("Hfo_w", spm_w), ("Hfo_s", spm_s)):
            if not spm:
                continue
            tot = sum(v * kgw * db.composition(sp, db.surface_species).get(site, 0.0) for sp, v in mol.items())
            nchk += 1
            if abs(tot - spm * m) > 1e-8 * spm * m + 1e-14:
                findings.append(("C20/kinetic-surface/site-balance", "%s step %d: species of %s hold %.12g mol of sites, %g per mole x KIN = %.12g" % (case["id"], k + 1, site, tot, spm, spm * m)))
        area = apm * m
        q = sum(v * kgw * dbparse.charge_of(sp)[1] for sp, v in mol.items())
        qabs = sum(abs(v * kgw * dbparse.charge_of(sp)[1]) for sp, v in mol.items())
        sig_species = q * F_C / area
        floor = 1e-9 * qabs * F_C / area
        want = cap * psi if model == "ccm" else math.sqrt(8000.0 * eps * EPS0 * R_J * tk * mu) * math.sinh(F_C * psi / (2.0 * R_J * tk))
        rel = abs(want - sig_species) / max(abs(want), abs(sig_species), 1e-30)
        worst = max(worst, rel)
        nchk += 1
        sigs.add("kinetic-surface|%s|%s" % (model, "grows" if grow else "dissolves"))
        if abs(want - sig_species) > 1e-7 * max(abs(want), abs(sig_species)) + floor + 1e-11 and abs(sig_species) > 1e-12:
            findings.append(("C20/kinetic-surface/charge-law/%s" % model, "%s step %d: reactant %.10g mol (m0 %.10g), area %.8g m2: sigma from species %.12g C/m2, %s at psi = %.9g V gives %.12g (relative %.2e)" % (
                case["id"], k + 1, m, m0, area, sig_species, "C psi" if model == "ccm" else "Gouy-Chapman", psi, want, rel)))
    stats = {"n_checks": nchk, "worst_sigma_rel": worst}
    sample = dict(id=case["id"], model="kinetic-surface/" + model, m0=m0, m=m_now, rate=rate, steps=nst, pH=ph, I=ionic, rows=len(rrows), worst_sigma_rel=worst)
    if findings:
        k_, w_ = findings[0]
        return Result(VIOLATED, key=k_, what=w_, findings=findings[1:], sigs=sigs, sample=sample, stats=stats)
    if nchk == 0:
        return Result(INCONCLUSIVE, reason="nothing checked")
    return Result(HELD, sigs=sigs, sample=sample, stats=stats)


def run_bident(ctx, case):
    """a surface defined in the input whose site type also forms a bidentate species (2 Su_OH + Zn+2 = (Su_O)2Zn + 2 H+): the site balance counts every species
    with the number of sites it occupies; the charge law is judged as for Hfo"""
    r = ctx.rng("bident", case["i"])
    f = gens.fmt
    model = r.choice(["ddl", "ddl", "no_edl", "ccm", "donnan"])
    cap = r.choice([0.8, 1.5, 2.9])
    sites, area, mass = gens.loguni(r, 1e-4, 3e-3), r.choice([50, 100, 600]), gens.loguni(r, 0.1, 3)
    ph, ionic, zn = round(r.uniform(5, 9), 2), gens.loguni(r, 1e-3, 0.2), gens.loguni(r, 1e-6, 1e-3)
    lkz = round(r.uniform(-8, -3), 2)
    species = {"Su_OH": (1, 0), "Su_O-": (1, -1), "Su_OH2+": (1, 1), "(Su_O)2Zn": (2, 0), "Su_OZn+": (1, 1)}      # name -> (sites occupied, charge)
    heads = ["tk", "mu", "eps", "kgw", "psi"] + ["mol:%s" % k for k in species]
    items = ["TK", "MU", "EPS_R", 'TOT("water")', 'EDL("psi", "Su")'] + ['MOL("%s")' % k for k in species]
    prog, ln = [], 10
    for i in range(0, len(items), 5):
        prog.append(" %d PUNCH %s" % (ln, ", ".join(items[i:i + 5])))
        ln += 10
    text = ("KNOBS\n -convergence_tolerance 1e-12\n -iterations 400\nSURFACE_MASTER_SPECIES\n Su_ Su_OH\nSURFACE_SPECIES\n Su_OH = Su_OH\n log_k 0\n Su_OH = Su_O- + H+\n log_k -8.2\n Su_OH + H+ = Su_OH2+\n log_k 6.5\n"
            " 2Su_OH + Zn+2 = (Su_O)2Zn + 2H+\n log_k %s\n Su_OH + Zn+2 = Su_OZn+ + H+\n log_k -2.5\n" % f(lkz) +
            "SELECTED_OUTPUT 1\n -reset false\n -state true\nUSER_PUNCH 1\n -headings %s\n -start\n%s\n -end\n" % (" ".join(heads), "\n".join(prog)) +
            "SOLUTION 1\n temp 25\n pH %s\n units mol/kgw\n Na %s\n Cl %s charge\n Zn %s\n" % (f(ph), f(ionic), f(ionic), f(zn)) +
            "SURFACE 1\n -equilibrate 1\n Su_OH %s %s %s\n" % (f(sites), f(area), f(mass)) +
            {"ddl": "", "no_edl": " -no_edl\n", "ccm": " -ccm %s\n" % f(cap), "donnan": " -donnan\n"}[model] + "SAVE surface 1\nEND\n" +
            "USE solution 1\nUSE surface 1\nREACTION 1\n %s 1\n %s mol\nEND\n" % (r.choice(["HCl", "NaOH", "NaCl"]), f(gens.loguni(r, 1e-5, 5e-4))))
    cwd = ctx.scratch(case["id"])
    s = core.Script()
    s.raw("new a")
    s.raw("loaddb a " + os.path.join(ctx.db, "phreeqc.dat"))
    s.run("a", text)
    s.raw("snap a se")
    run = core.run_vdrive(ctx.bin("opt"), s.bytes(), cwd, timeout=120)
    if core.process_failure(run):
        return Result(INCONCLUSIVE, reason="process failure")
    rr, sn = core.rets(run, "run"), core.rets(run, "snap")
    if not rr or rr[0].get("r") != 0 or not sn or not sn[0]["selout"]:
        et = (sn[0]["error"].get("text", "") if sn else "").strip().split("\n")[0]
        return Result(INCONCLUSIVE, reason="run reports errors: " + " ".join(et.split())[:45])
    cells = sn[0]["selout"][0]["cells"]
    hd = [c[1] for c in cells[0]]
    rows = [{h: (c[1] if c[0] == "s" else (float(c[1]) if c[0] in "dl" else None)) for h, c in zip(hd, row)} for row in cells[1:]]
    srows = [d for d in rows if d.get("state") in ("i_surf", "react")]
    if not srows:
        return Result(INCONCLUSIVE, reason="no surface row")
    want = float(f(sites))
    findings, sigs, nchk, worst = [], set(), 0, 0.0
    for d in srows:
        kgw, tk, mu, eps, psi = d["kgw"], d["tk"], d["mu"], d["eps"], d["psi"]
        mol = {h[4:]: v for h, v in d.items() if h.startswith("mol:") and v is not None}
        tot = sum(v * kgw * species[k][0] for k, v in mol.items())
        nchk += 1
        sigs.add("bidentate|%s|%s" % (model, d.get("state")))
        if abs(tot - want) > 1e-8 * want + 1e-14:
            findings.append(("C20/site-balance/bidentate", "%s (%s, %s): the species of Su_ occupy %.12g mol of sites (the bidentate (Su_O)2Zn counted twice, %.6g mol of it), %.12g defined" % (
                case["id"], model, d.get("state"), tot, mol.get("(Su_O)2Zn", 0.0) * kgw, want)))
        if model in ("ddl", "ccm") and psi is not None:
            atot = area * float(f(mass))
            q = sum(v * kgw * species[k][1] for k, v in mol.items())
            qabs = sum(abs(v * kgw * species[k][1]) for k, v in mol.items())
            sig_species = q * F_C / atot
            law = cap * psi if model == "ccm" else math.sqrt(8000.0 * eps * EPS0 * R_J * tk * mu) * math.sinh(F_C * psi / (2.0 * R_J * tk))
            rel = abs(law - sig_species) / max(abs(law), abs(sig_species), 1e-30)
            worst = max(worst, rel)
            nchk += 1
            if abs(law - sig_species) > 1e-7 * max(abs(law), abs(sig_species)) + 1e-9 * qabs * F_C / atot + 1e-11 and abs(sig_species) > 1e-12:      # secondary here (measured 2e-8 next to the point of zero charge); the charge laws proper are judged on Hfo
                findings.append(("C20/bidentate/charge-law/%s" % model, "%s: sigma from species %.12g C/m2, %s at psi = %.9g V gives %.12g (relative %.2e)" % (
                    case["id"], sig_species, "C psi" if model == "ccm" else "Gouy-Chapman", psi, law, rel)))
    stats = {"n_checks": nchk, "worst_sigma_rel": worst}
    sample = dict(id=case["id"], model="bidentate/" + model, sites=want, pH=ph, I=ionic, Zn=zn, rows=len(srows))
    if findings:
        k_, w_ = findings[0]
        return Result(VIOLATED, key=k_, what=w_, findings=findings[1:], sigs=sigs, sample=sample, stats=stats)
    return Result(HELD, sigs=sigs, sample=sample, stats=stats)


def run_case(ctx, case):
    if case["i"] % 8 == 7:
        return run_goe(ctx, case)
    if case["i"] % 8 == 5:
        return run_bident(ctx, case)
    if case["i"] % 8 == 3:
        return run_kin(ctx, case)
    db = c01.get_db(ctx, case["db"])
    text, info = build(ctx, case, db)
    cwd = ctx.scratch(case["id"])
    s = core.Script()
    s.raw("new a")
    s.raw("loaddb a " + os.path.join(ctx.db, case["db"]))
    s.raw("set a DumpStringOn 1")
    s.run("a", text)
    s.raw("snap a se")
    s.run("a", "DUMP\n -surface 1\nEND\n")
    s.raw("snap a d")
    run = core.run_vdrive(ctx.bin("opt"), s.bytes(), cwd, timeout=120)
    if core.process_failure(run):
        return Result(INCONCLUSIVE, reason="process failure")
    rr, sn = core.rets(run, "run"), core.rets(run, "snap")
    if not rr or rr[0].get("r") != 0 or not sn or not sn[0]["selout"]:
        et = (sn[0]["error"].get("text", "") if sn else "").strip().split("\n")[0]
        return Result(INCONCLUSIVE, reason="run reports errors: " + " ".join(et.split())[:45])
    cells = sn[0]["selout"][0]["cells"]
    hd = [c[1] for c in cells[0]]
    rows = []
    for row in cells[1:]:
        d = {}
        for h, c in zip(hd, row):
            d[h] = c[1] if c[0] == "s" else (float(c[1]) if c[0] in "dl" else None)
        rows.append(d)
    srows = [d for d in rows if d.get("state") in ("i_surf", "react")]
    if not srows:
        return Result(INCONCLUSIVE, reason="no surface row")
    findings, sigs = [], set()
    nchk, worst_ma, worst_sig = 0, 0.0, 0.0
    model = info["model"]
    for d in srows:
        tk, mu, eps, kgw, psi = d["tk"], d["mu"], d["eps"], d["kgw"], d["psi"]
        if model == "no_edl":
            psi = 0.0
        la = {k[3:]: v for k, v in d.items() if k.startswith("la:") and v is not None and v > -90}
        mol = {k[4:]: v for k, v in d.items() if k.startswith("mol:") and v is not None}
        # (1) site balance
        for site, want in info["sites"].items():
            tot = sum(m * kgw * db.composition(sp, db.surface_species).get(site, 0.0) for sp, m in mol.items())
            nchk += 1
            if abs(tot - want) > 1e-8 * want + 1e-14:      # 1e-14 mol: the solver accepts a site balance whose absolute residual is below KNOBS -tolerance (1e-15) whatever the total
                findings.append(("C20/site-balance/%s" % site, "%s (%s): species of %s hold %.12g mol of sites, %.12g defined" % (case["id"], model, site, tot, want)))
        if model == "cd_music":
            sigs.add("cd_music|sites%d" % len(info["sites"]))
            continue
        # (4b) explicit diffuse layer, from the species it is reported to hold: sum z n = - surface charge
        ndl = d.get("dl_n")
        if ndl is not None and 0 < ndl <= 45 and d.get("charge") is not None and abs(d["charge"]) > 1e-12:
            qdl = 0.0
            for i in range(1, int(ndl) + 1):
                nm_, m_ = d.get("dl_name%d" % i), d.get("dl_mol%d" % i)
                if isinstance(nm_, str) and nm_ != "-" and m_ is not None:
                    qdl += dbparse.charge_of(nm_)[1] * m_
            nchk += 1
            sigs.add("%s|layer-species-charge" % model)
            if abs(qdl + d["charge"]) > 1e-6 * max(abs(qdl), abs(d["charge"])) + 2e-12:
                findings.append(("C20/diffuse-layer-species-charge/%s" % model, "%s: surface charge %.10g eq, but the species reported in the diffuse layer carry %.10g eq (sum %.3e; pH %s, I %.3g)" % (
                    case["id"], d["charge"], qdl, qdl + d["charge"], info["ph"], info["ionic"])))
        # (2) mass action with the electrostatic term
        for sp in info["susp"]:
            rx = db.surface_species[sp]
            if db._is_identity(rx) or sp not in la:
                continue
            if any(nm not in la for _, nm in rx.terms):
                continue
            lk = db.log_k_T(rx, tk)
            if lk is None:
                continue
            dz = sum(c * dbparse.charge_of(nm)[1] for c, nm in rx.terms if nm in db.surface_species)
            res = sum(c * la[nm] for c, nm in rx.terms) - lk + dz * F_C * psi / (R_J * tk * math.log(10.0))
            nchk += 1
            worst_ma = max(worst_ma, abs(res))
            sigs.add("%s|%s" % (model, sp))
            if abs(res) > 1e-8:
                findings.append(("C20/mass-action/%s" % model, "%s: %r with psi = %.9g V, dz = %g, T = %.2f K: sum nu LA - log K + dz F psi/(RT ln10) = %.3e" % (case["id"], rx.eq_text, psi, dz, tk, res)))
                break
        # (3) charge laws
        area_tot = info["area"] * info["mass"]
        q = sum(m * kgw * dbparse.charge_of(sp)[1] for sp, m in mol.items())          # eq
        sig_species = q * F_C / area_tot
        # the net charge is a difference of the charged species' amounts: near the point of zero charge its round-off is set by their sum, not by the net value
        qabs = sum(abs(m * kgw * dbparse.charge_of(sp)[1]) for sp, m in mol.items())
        sig_floor = 1e-12 * qabs * F_C / area_tot
        if model in ("ddl", "ccm"):
            nchk += 1
            if abs(d["sigma"] - sig_species) > 1e-8 * max(abs(sig_species), 1e-12) + sig_floor:
                findings.append(("C20/sigma-readout/%s" % model, "%s: EDL sigma = %.12g C/m2, from species charges %.12g" % (case["id"], d["sigma"], sig_species)))
            if abs(d["charge"] - q) > 1e-8 * max(abs(q), 1e-15) + 1e-12 * qabs:
                findings.append(("C20/charge-readout/%s" % model, "%s: EDL charge = %.12g eq, from species %.12g" % (case["id"], d["charge"], q)))
        if model in ("ddl", "donnan", "donnan_debye", "counter_only"):      # the Donnan options keep the Gouy-Chapman relation between the surface charge and psi; only the layer's content is modelled differently
            gc = math.sqrt(8000.0 * eps * EPS0 * R_J * tk * mu) * math.sinh(F_C * psi / (2.0 * R_J * tk))
            nchk += 1
            rel = abs(gc - sig_species) / max(abs(gc), abs(sig_species), 1e-30)
            worst_sig = max(worst_sig, rel)
            gtol = 1e-8 if model == "ddl" else 1e-5      # with an explicit Donnan layer the charge balance closes over the layer's content, which is iterated to its own tolerance (measured: up to 6e-6 relative, 8e-10 C/m2, near the point of zero charge)
            gabs = 0.0 if model == "ddl" else 1e-8
            if abs(gc - sig_species) > gtol * max(abs(gc), abs(sig_species)) + gabs + 1e3 * sig_floor + 1e-11 and abs(sig_species) > 1e-12:      # the solver fixes the net charge to about 1e-9 of the charged sites
                findings.append(("C20/gouy-chapman" + ("" if model == "ddl" else "/" + model), "%s: sigma from species %.12g C/m2, Gouy-Chapman at psi = %.9g V, I = %.6g, eps = %.6g, T = %.2f K gives %.12g (relative %.2e)" % (
                    case["id"], sig_species, psi, mu, eps, tk, gc, rel)))
        if model == "ccm":
            nchk += 1
            want = info["cap"] * psi
            rel = abs(want - sig_species) / max(abs(want), abs(sig_species), 1e-30)
            worst_sig = max(worst_sig, rel)
            if abs(want - sig_species) > 1e-8 * max(abs(want), abs(sig_species)) + 1e3 * sig_floor + 1e-11 and abs(sig_species) > 1e-12:      # the solver fixes the net charge to about 1e-9 of the charged sites
                findings.append(("C20/constant-capacitance", "%s: sigma from species %.12g C/m2, C * psi = %.12g (C = %g F/m2, psi = %.9g V)" % (case["id"], sig_species, want, info["cap"], psi)))
    # (4) explicit diffuse layer: surface + layer balance
    if model in ("donnan", "donnan_debye", "diffuse_layer", "counter_only") and len(sn) > 1:
        dump = c14.parse_dump(sn[1]["dump"].get("text", ""))
        lines = dump.get(("surface", 1))
        if lines:
            comp_cb, layer_cb, sect, comp = 0.0, None, None, None
            for ln in lines:
                w = ln.split()
                if w[0] in ("-component", "-charge_component"):
                    comp = w[0]
                elif w[0] == "-charge_balance" and len(w) > 1:
                    if comp == "-charge_component":
                        layer_cb = float(w[1])
                    else:
                        comp_cb += float(w[1])
            if layer_cb is not None and abs(comp_cb) > 1e-12:
                nchk += 1
                sigs.add("%s|layer-balance" % model)
                if abs(layer_cb) > 1e-8 * abs(comp_cb) + 2e-12:      # 2e-12 eq: absolute convergence floor of the charge-balance unknown
                    findings.append(("C20/diffuse-layer-balance/%s" % model, "%s: surface charge %.10g eq but surface + diffuse layer balance %.3e eq" % (case["id"], comp_cb, layer_cb)))
    stats = {"n_checks": nchk, "worst_mass_action_residual": worst_ma, "worst_sigma_rel": worst_sig}
    sample = dict(id=case["id"], model=model, sites=info["sites"], pH=info["ph"], I=info["ionic"], sorbing=info["sorb"], rows=len(srows), worst_mass_action=worst_ma)
    if findings:
        k, w = findings[0]
        return Result(VIOLATED, key=k, what=w, findings=findings[1:], sigs=sigs, sample=sample, stats=stats)
    if nchk == 0:
        return Result(INCONCLUSIVE, reason="nothing checked")
    return Result(HELD, sigs=sigs, sample=sample, stats=stats)
