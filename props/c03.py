"""C03 - reactant assemblages end in a valid heterogeneous equilibrium state.

Monitor: seeded cells (solution + EQUILIBRIUM_PHASES with 1-6 minerals, random targets / amounts incl. zero and the
dissolve_only / precipitate_only / force_equality restrictions; exchangers and surfaces defined explicitly or by equilibration;
ideal and binary non-ideal solid solutions; optional REACTION and temperature) are reacted; USER_PUNCH records EQUI and SI of
every mineral, MOL of every exchange and surface species the database defines (names from the independent database reader),
S_S and SI of every solid-solution component and the mass of water.
Oracle: complementarity per mineral (present & SI = target, or absent & SI <= target, 1e-6) with the one-sided restrictions;
sum of exchange-species equivalents = exchange capacity defined; per site type, sum of surface-species site stoichiometry =
sites defined (1e-8); solid-solution fractions >= 0, sum 1, and for ideal solid solutions 10^SI(component) = mole fraction.
"""
import math
import os

from vlib import core, gens, dbparse
from vlib.core import Result, HELD, VIOLATED, INCONCLUSIVE
from props import c01

PROP = "C03"
FLAVOURS = ["opt"]
RULE = ("cases: seeded cells in phreeqc.dat, one in five in pitzer.dat (thorough also wateq4f.dat): solution of 3-8 elements at 0-90 C + any subset of {1-6 minerals with targets in [-1, 1] and amounts in {0, 1e-4 .. 1}, "
        "restrictions dissolve_only / precipitate_only / force_equality; exchanger X explicit or equilibrated; Hfo surface with weak+strong sites, diffuse layer or no_edl; ideal (Ca,Sr)CO3 / "
        "(Ba,Sr)SO4 or non-ideal binary solid solution; REACTION}. distinct & non-trivial = distinct (mineral, present/absent, restriction) + exchanger / surface / solid-solution kinds checked")
ASSUME = ["gases inside EQUILIBRIUM_PHASES are judged by C19 (their target is a partial pressure, SI reports the fugacity)", "rows of runs that report an error are inconclusive",
          "force_equality is only generated with an amount that cannot run out"]

MINERALS = ["Calcite", "Aragonite", "Dolomite", "Gypsum", "Anhydrite", "Quartz", "Chalcedony", "SiO2(a)", "Barite", "Celestite", "Strontianite", "Witherite", "Fluorite", "Gibbsite",
            "Kaolinite", "Siderite", "Rhodochrosite", "Halite", "Sylvite", "Fe(OH)3(a)", "Goethite", "Hydroxyapatite"]
NEEDS = {"Calcite": ["Ca", "C(4)"], "Aragonite": ["Ca", "C(4)"], "Dolomite": ["Ca", "Mg", "C(4)"], "Gypsum": ["Ca", "S(6)"], "Anhydrite": ["Ca", "S(6)"], "Quartz": ["Si"], "Chalcedony": ["Si"],
         "SiO2(a)": ["Si"], "Barite": ["Ba", "S(6)"], "Celestite": ["Sr", "S(6)"], "Strontianite": ["Sr", "C(4)"], "Witherite": ["Ba", "C(4)"], "Fluorite": ["Ca", "F"], "Gibbsite": ["Al"],
         "Kaolinite": ["Al", "Si"], "Siderite": ["Fe", "C(4)"], "Rhodochrosite": ["Mn", "C(4)"], "Halite": ["Na", "Cl"], "Sylvite": ["K", "Cl"], "Fe(OH)3(a)": ["Fe"], "Goethite": ["Fe"],
         "Hydroxyapatite": ["Ca", "P"]}
POLYMORPH = [{"Calcite", "Aragonite"}, {"Gypsum", "Anhydrite"}, {"Quartz", "Chalcedony", "SiO2(a)"}, {"Fe(OH)3(a)", "Goethite"}]


def gen_cases(ctx):
    n = ctx.params.get("cases") or (300 if ctx.tier == "quick" else 5000)
    for i in range(n):
        # one case in five under the Pitzer model (its own solver loop), thorough also wateq4f
        yield dict(id="a%05d" % i, i=i, db="pitzer.dat" if i % 5 == 0 else ("phreeqc.dat" if (ctx.tier == "quick" or i % 3) else "wateq4f.dat"))


def build(ctx, case, db):
    r = ctx.rng("asm", case["i"])
    f = gens.fmt
    nmin = r.choice([0, 1, 1, 2, 3, 4, 6])
    mins = []
    pool = [m for m in MINERALS if m in db.phases]
    while len(mins) < nmin and pool:
        m = r.choice(pool)
        pool.remove(m)
        if any(m in g and (g & set(x[0] for x in mins)) for g in POLYMORPH) and r.random() < 0.7:
            continue
        target = 0.0 if r.random() < 0.6 else round(r.uniform(-1, 1), 2)
        amt = r.choice([0, 0, 1e-4, 1e-3, 0.01, 0.1, 1])
        restr = r.choice([None, None, None, None, "dissolve_only", "precipitate_only", "force_equality"])
        if restr == "force_equality":
            amt = 10.0
            if any(m in g for g in POLYMORPH):
                restr = None       # two polymorphs cannot both sit at their target; equality would be unsatisfiable
        if restr == "dissolve_only" and amt == 0:
            amt = 0.01
        mins.append((m, target, amt, restr))
    els = {"Na", "Cl"}
    for m, _, _, restr_ in mins:
        if r.random() < 0.75 or restr_ == "dissolve_only":      # dissolve_only minerals are usually given a water that could precipitate them
            els.update(NEEDS[m])
    for e in r.sample(["Ca", "Mg", "K", "S(6)", "C(4)", "Si", "Sr", "Ba", "F", "Al", "Fe", "Mn", "P"], r.randint(1, 4)):
        els.add(e)
    els = {e for e in els if e in db.elements or e.split("(")[0] in db.elements}      # pitzer.dat has no F, Al, P
    temp = 25 if r.random() < 0.4 else round(r.uniform(1, 90), 1)
    t = "SOLUTION 1\n temp %s\n pH %s\n pe 4\n units mmol/kgw\n" % (f(temp), f(round(r.uniform(4.5, 9.5), 2)))
    conc = {}
    for e in sorted(els):
        conc[e] = gens.loguni(r, 1e-3, 20) if e in ("Na", "Cl", "Ca", "Mg", "K", "S(6)", "C(4)") else gens.loguni(r, 1e-4, 0.1)
    zc = {"Na": 1, "K": 1, "Ca": 2, "Mg": 2, "Sr": 2, "Ba": 2, "Fe": 2, "Mn": 2, "Al": 3}
    za = {"S(6)": 2, "C(4)": 1, "F": 1, "P": 2}
    excess = sum(conc[e] * z for e, z in zc.items() if e in conc) - sum(conc[e] * z for e, z in za.items() if e in conc)
    bal = "Cl" if excess > 0 else "Na"      # the balancing ion must be able to take up the imbalance with a positive concentration
    for e in sorted(els):
        t += " %s %s%s\n" % (e, f(conc[e]), " charge" if e == bal else "")
    info = dict(mins=mins, temp=temp)
    blocks = ""
    if mins:
        blocks += "EQUILIBRIUM_PHASES 1\n"
        for m, target, amt, restr in mins:
            if restr == "force_equality":
                blocks += " %s %s %s\n -force_equality true\n" % (m, f(target), f(amt))
            else:
                blocks += " %s %s %s%s\n" % (m, f(target), f(amt), (" " + restr) if restr else "")
    exch = r.choice([None, None, "equil", "explicit"])
    if exch == "equil":
        cec = gens.loguni(r, 1e-3, 0.3)
        blocks += "EXCHANGE 1\n X %s\n -equilibrate 1\n" % f(cec)
        info["cec"] = float(f(cec))
    elif exch == "explicit":
        comp = {sp: gens.loguni(r, 1e-3, 0.1) for sp in r.sample(["NaX", "KX", "CaX2", "MgX2"], r.randint(1, 3))}
        blocks += "EXCHANGE 1\n" + "".join(" %s %s\n" % (sp, f(v)) for sp, v in comp.items())
        info["cec"] = sum(float(f(v)) * (2 if sp.endswith("X2") else 1) for sp, v in comp.items())
    surf = r.choice([None, None, "ddl", "no_edl", "donnan"])
    if surf:
        w = gens.loguni(r, 2e-4, 3e-3)
        s_ = w / 40 if r.random() < 0.6 else None
        blocks += "SURFACE 1\n -equilibrate 1\n Hfo_wOH %s %s %s\n" % (f(w), r.choice([600, 100]), f(gens.loguni(r, 0.1, 2)))
        if s_:
            blocks += " Hfo_sOH %s\n" % f(s_)
        blocks += {"ddl": "", "no_edl": " -no_edl\n", "donnan": " -donnan\n"}[surf]
        info["sites"] = {"Hfo_w": float(f(w))}
        if s_:
            info["sites"]["Hfo_s"] = float(f(s_))
        info["surf"] = surf
    ss = r.choice([None, None, None, "ideal_casr", "ideal_basr", "nonideal"])
    if ss and "Strontianite" in db.phases:
        if ss == "ideal_casr":
            comps = ("Calcite", "Strontianite")
            blocks += "SOLID_SOLUTIONS 1\n CaSrCO3\n -comp Calcite %s\n -comp Strontianite %s\n" % (f(gens.loguni(r, 1e-3, 0.1)), f(gens.loguni(r, 1e-4, 0.01)))
        elif ss == "ideal_basr":
            comps = ("Barite", "Celestite")
            blocks += "SOLID_SOLUTIONS 1\n BaSrSO4\n -comp Barite %s\n -comp Celestite %s\n" % (f(gens.loguni(r, 1e-3, 0.1)), f(gens.loguni(r, 1e-4, 0.01)))
        else:
            comps = ("Calcite", "Strontianite")
            blocks += "SOLID_SOLUTIONS 1\n CaSrCO3\n -comp1 Calcite %s\n -comp2 Strontianite %s\n -Gugg_nondim %s %s\n" % (
                f(gens.loguni(r, 1e-3, 0.1)), f(gens.loguni(r, 1e-4, 0.01)), f(round(r.uniform(0.5, 1.8), 2)), f(round(r.uniform(-0.3, 0.3), 2)))
        info["ss"] = (ss, comps)
        if ss.startswith("ideal") and r.random() < 0.5:
            # history: the same instance has just run a non-ideal solid solution of the same end members (whatever is cached per phase must not leak into the ideal one)
            info["warm"] = ("SOLUTION 99\n temp 25\n pH 8\n Ca 2\n Sr 0.5\n Ba 0.1\n C(4) 3\n S(6) 1\n Na 1\n Cl 1 charge\nSOLID_SOLUTIONS 99\n WarmSS\n -comp1 %s 0.01\n -comp2 %s 0.002\n -Gugg_nondim %s %s\nEND\n"
                            % (comps[0], comps[1], f(round(r.uniform(1.5, 3.5), 2)), f(round(r.uniform(-1.8, 0.5), 2))))
        # components of a solid solution must not also be pure phases of the assemblage
        blocks = "\n".join(l for l in blocks.split("\n") if not (l.startswith(" ") and l.split()[0] in comps and "EQUILIBRIUM" not in l and l.split()[0] in [m[0] for m in mins] and "-comp" not in l)) + "\n"
        info["mins"] = [m for m in mins if m[0] not in comps]
        mins = info["mins"]
    react = ""
    if r.random() < 0.5:
        react = gens.reaction(r, 1, steps="%s mmol" % f(gens.loguni(r, 0.1, 10)))
    # read-outs
    heads, items = ["kgw", "tc"], ['TOT("water")', "TC"]
    for m, _, _, _ in mins:
        heads += ["equi:%s" % m, "si:%s" % m]
        items += ['EQUI("%s")' % m, 'SI("%s")' % m]
    # the bare exchanger X- is a book-keeping master species (its 'molality' is not an amount of sites); real sites sit on the exchange species
    exsp = [s for s in db.exchange_species if "X" in db.composition(s, db.exchange_species) and not db._is_identity(db.exchange_species[s])] if "cec" in info else []
    for s in exsp:
        heads.append("mol:%s" % s)
        items.append('MOL("%s")' % s)
    susp = [s for s in db.surface_species if any(k.startswith("Hfo") for k in db.composition(s, db.surface_species))] if surf else []
    for s in susp:
        heads.append("mol:%s" % s)
        items.append('MOL("%s")' % s)
    if "ss" in info:
        for c in info["ss"][1]:
            heads += ["ss:%s" % c, "si:%s" % c]
            items += ['S_S("%s")' % c, 'SI("%s")' % c]
    prog = []
    ln = 10
    for i in range(0, len(items), 6):
        prog.append(" %d PUNCH %s" % (ln, ", ".join(items[i:i + 6])))
        ln += 10
    sel = "SELECTED_OUTPUT 1\n -reset false\n -state true\nUSER_PUNCH 1\n -headings " + " ".join(h.replace(" ", "_") for h in heads) + "\n -start\n" + "\n".join(prog) + "\n -end\n"
    text = "KNOBS\n -convergence_tolerance 1e-12\n -iterations 400\n" + sel + t + "END\nUSE solution 1\n" + blocks + react + "END\n"
    # history: a second reaction step right after the first, with the same water, the same mineral list, targets and amounts and the same other reactants,
    # in which only the one-sided restrictions are drawn again (the solver may reuse the model it built for the first step; the restrictions must still be the new ones)
    if mins and r.random() < 0.5:
        mins2 = []
        for m, target, amt, restr in mins:
            r2 = r.choice([None, None, "dissolve_only", "precipitate_only"]) if restr != "force_equality" else restr
            a2 = amt
            if r2 == "dissolve_only" and a2 == 0:
                r2 = None
            mins2.append((m, target, a2, r2))
        b2 = "EQUILIBRIUM_PHASES 2\n"
        for m, target, amt, restr in mins2:
            if restr == "force_equality":
                b2 += " %s %s %s\n -force_equality true\n" % (m, f(target), f(amt))
            else:
                b2 += " %s %s %s%s\n" % (m, f(target), f(amt), (" " + restr) if restr else "")
        text += "USE solution 1\n" + b2
        if "cec" in info:
            text += "USE exchange 1\n"
        if surf:
            text += "USE surface 1\n"
        if "ss" in info:
            text += "USE solid_solutions 1\n"
        if react:
            text += "USE reaction 1\n"
        text += "END\n"
        info["mins2"] = mins2
    # history: a last step on the water the first step left behind (saved as solution 5).  Every mineral starts absent with its target moved by a few 1e-6 .. 1e-4:
    # the water sits that close above or below saturation, which is where 'absent' and 'must precipitate' meet
    if mins and "ss" not in info and r.random() < 0.5:
        mins3 = []
        for m, target, amt, restr in mins:
            dlt = r.choice([3e-6, 1e-5, 3e-5, 6e-5, 3e-4]) * r.choice([1, 1, -1])
            mins3.append((m, round(target - dlt, 7), 0.0, None))
        text = text.replace("END\nUSE solution 1\n" + blocks + react + "END\n", "END\nUSE solution 1\n" + blocks + react + "SAVE solution 5\nEND\n", 1)
        text += "USE solution 5\nEQUILIBRIUM_PHASES 3\n" + "".join(" %s %s 0\n" % (m, f(tg)) for m, tg, _, _ in mins3)
        if "cec" in info:
            text += "USE exchange 1\n"
        if surf:
            text += "USE surface 1\n"
        text += "END\n"
        info["mins3"] = mins3
    info["minseq"] = [info["mins"]] + ([info["mins2"]] if "mins2" in info else []) + ([info["mins3"]] if "mins3" in info else [])
    info.update(exsp=exsp, susp=susp)
    return text, info


def marg(si, target):
    """a saturation index that misses its target by 1e-6 .. 1e-5 is keyed apart (open known finding: accuracy of the solver for trace redox elements)"""
    return "/marginal" if abs(si - target) <= 1e-5 else ""


def run_case(ctx, case):
    db = c01.get_db(ctx, case["db"])
    text, info = build(ctx, case, db)
    if not (info["mins"] or "cec" in info or "sites" in info or "ss" in info):
        return Result(INCONCLUSIVE, reason="empty assemblage")
    cwd = ctx.scratch(case["id"])
    s = core.Script()
    s.raw("new a")
    s.raw("loaddb a " + os.path.join(ctx.db, case["db"]))
    if info.get("warm"):
        s.run("a", info["warm"])
    s.run("a", text)
    s.raw("snap a se")
    run = core.run_vdrive(ctx.bin("opt"), s.bytes(), cwd, timeout=120)
    if core.process_failure(run):
        return Result(INCONCLUSIVE, reason="process failure")
    rr, sn = core.rets(run, "run")[-1:], core.rets(run, "snap")
    if not rr or rr[0].get("r") != 0 or not sn or not sn[0]["selout"]:
        et = (sn[0]["error"].get("text", "") if sn else "").strip().split("\n")[0]
        return Result(INCONCLUSIVE, reason="run reports errors: " + " ".join(et.split())[:45])
    cells = sn[0]["selout"][0]["cells"]
    hd = [c[1] for c in cells[0]]
    rows = []
    for row in cells[1:]:
        d = {}
        for h, c in zip(hd, row):
            d[h] = c[1] if c[0] == "s" else (float(c[1]) if c[0] in "dl" else None)
        rows.append(d)
    rrows = [d for d in rows if d.get("state") == "react"]
    if not rrows:
        return Result(INCONCLUSIVE, reason="no reaction row")
    findings, sigs = [], set()
    nchk = 0
    for ri, d in enumerate(rrows):
        kgw = d["kgw"]
        second = ri >= 1
        for m, target, amt, restr in info["minseq"][min(ri, len(info["minseq"]) - 1)]:
            n, si = d.get("equi:%s" % m), d.get("si:%s" % m)
            if n is None or si is None:
                continue
            if si < -99:
                # SI undefined = an element of the mineral is not in the system.  Admissible for a mineral that is not there (or may only precipitate);
                # a mineral that is there must have supplied its elements (the engine pre-dissolves a trace of it for that purpose)
                if n > 0 and restr != "precipitate_only":
                    nchk += 1
                    findings.append(("C03/complementarity/present/undefined-si", "%s (target %g, initial %g mol%s) in %s%s: %.10g mol present but its saturation index is undefined (%.2f): "
                                     "the mineral was left out of the equilibrium although it holds the only source of one of its elements" % (
                                         m, target, amt, (", " + restr) if restr else "", case["id"], " (second step)" if second else "", n, si)))
                continue
            nchk += 1
            present = n > 0
            sigs.add("%s|%s|%s%s" % (m, "present" if present else "absent", restr or "-", "|2nd-step" if second else ""))
            tag = "%s (target %g, initial %g mol%s) at %.1f C in %s%s" % (m, target, amt, (", " + restr) if restr else "", info["temp"], case["id"], " (second step, restrictions re-drawn)" if second else "")
            if n < 0:
                findings.append(("C03/negative-amount", "%s: EQUI = %.6e < 0" % (tag, n)))
            if restr == "dissolve_only":
                if n > amt * (1 + 1e-9) + 1e-14:
                    findings.append(("C03/dissolve-only-grew", "%s: amount grew to %.10g" % (tag, n)))
                if present and abs(si - target) > 1e-6 and not (si > target and abs(n - amt) <= 1e-9 * amt):
                    findings.append(("C03/complementarity/dissolve_only" + ("/over-dissolved" if (n < amt and si > target) else "") + marg(si, target), "%s: present with %.10g mol but SI = %.9f" % (tag, n, si)))
                if not present and si > target + 1e-6 and amt > 0:
                    pass      # it dissolved completely earlier in the step and cannot re-precipitate: admissible
            elif restr == "precipitate_only":
                if n < amt * (1 - 1e-9) - 1e-14:
                    findings.append(("C03/precipitate-only-shrank", "%s: amount shrank to %.10g" % (tag, n)))
                if abs(si - target) > 1e-6 and not (si < target and abs(n - amt) <= 1e-9 * max(amt, 1e-30) + 1e-14):
                    findings.append(("C03/complementarity/precipitate_only" + ("/over-precipitated" if (n > amt and si < target) else "") + marg(si, target), "%s: %.10g mol, SI = %.9f (undersaturation is admissible only at the initial amount, supersaturation never)" % (tag, n, si)))
            else:
                if present and abs(si - target) > 1e-6:
                    findings.append(("C03/complementarity/present" + marg(si, target), "%s: present with %.10g mol but SI = %.9f" % (tag, n, si)))
                if not present and si > target + 1e-6:
                    findings.append(("C03/complementarity/absent" + marg(si, target), "%s: absent (0 mol) although SI = %.9f exceeds the target" % (tag, si)))
                if restr == "force_equality" and present and abs(si - target) > 1e-6:      # a phase that ran out (10 mol of Halite in 1 kg at a target of +0.72) cannot hold its target
                    findings.append(("C03/force-equality" + marg(si, target), "%s: SI = %.9f" % (tag, si)))
        if "cec" in info:
            tot = 0.0
            for sp in info["exsp"]:
                m_ = d.get("mol:%s" % sp)
                if m_:
                    tot += m_ * kgw * db.composition(sp, db.exchange_species).get("X", 0.0)
            nchk += 1
            sigs.add("exchange|%s" % ("cec"))
            if abs(tot - info["cec"]) > 1e-8 * info["cec"]:
                findings.append(("C03/exchange-capacity", "%s: exchange species hold %.12g eq of X, defined capacity %.12g" % (case["id"], tot, info["cec"])))
        if "sites" in info:
            for site, want in info["sites"].items():
                tot = 0.0
                for sp in info["susp"]:
                    m_ = d.get("mol:%s" % sp)
                    if m_:
                        tot += m_ * kgw * db.composition(sp, db.surface_species).get(site, 0.0)
                nchk += 1
                sigs.add("surface|%s|%s" % (site, info["surf"]))
                if abs(tot - want) > 1e-8 * want:
                    findings.append(("C03/surface-sites/%s" % site, "%s: surface species hold %.12g mol of %s sites, defined %.12g (%s)" % (case["id"], tot, site, want, info["surf"])))
        if "ss" in info:
            kind, comps = info["ss"]
            ns = [d.get("ss:%s" % c) for c in comps]
            if all(x is not None for x in ns):
                nchk += 1
                sigs.add("solid-solution|%s|%s" % (kind, "present" if sum(ns) > 0 else "absent"))
                if any(x < 0 for x in ns):
                    findings.append(("C03/solid-solution/negative", "%s: component amounts %s" % (case["id"], ns)))
                tot = sum(ns)
                if tot > 0 and kind.startswith("ideal"):
                    for c, x in zip(comps, ns):
                        si = d.get("si:%s" % c)
                        frac = x / tot
                        if si is not None and si > -99 and frac > 1e-12 and abs(10.0 ** si - frac) > 1e-6 * max(frac, 1e-6):
                            findings.append(("C03/solid-solution/ideal-activity", "%s: ideal component %s has mole fraction %.10g but 10^SI = %.10g" % (case["id"], c, frac, 10.0 ** si)))
        if len(findings) > 5:
            break
    stats = {"n_checks": nchk}
    sample = dict(id=case["id"], minerals=info["mins"], cec=info.get("cec"), sites=info.get("sites"), ss=info.get("ss"), rows=len(rrows))
    if findings:
        k, w = findings[0]
        return Result(VIOLATED, key=k, what=w, findings=findings[1:], sigs=sigs, sample=sample, stats=stats)
    if nchk == 0:
        return Result(INCONCLUSIVE, reason="nothing checked")
    return Result(HELD, sigs=sigs, sample=sample, stats=stats)
