"""Orchestration shared by all checks: case pool, three-valued verdicts, known findings,
replay files, evidence, exit codes.

A property module (props/cNN.py) provides
    PROP       = "C01"
    FLAVOURS   = ["opt"]                   builds it needs
    PROGS      = ("vdrive",)               harness programs
    RULE       = "..."                     how cases are generated / what counts as non-trivial
    ASSUME     = [...]                     assumptions
    def gen_cases(ctx) -> iterable of case dicts (JSON-serialisable, must contain "id")
    def run_case(ctx, case) -> Result      runs in a worker process
    def finish(ctx, results) -> dict       optional: extra coverage keys / cross-case oracle
"""
import fnmatch
import hashlib
import json
import multiprocessing
import os
import random
import re
import shutil
import signal
import subprocess
import sys
import time
import traceback

from . import build

VERIF = build.VERIF
WORK = os.path.join(VERIF, ".work")
KNOWN = os.environ.get("VERIF_KNOWN_FILE") or os.path.join(VERIF, "known_findings.json")      # the override is for development sweeps only (tools), never used by a registered command

HELD, VIOLATED, INCONCLUSIVE = "held", "violated", "inconclusive"


class Result(dict):
    """status, key (violations), what, sigs (set of hashable signatures that make the case count as
    distinct & non-trivial), sample, stats (name->number, aggregated by max unless name starts with n_)"""

    def __init__(self, status, key=None, what=None, sigs=(), sample=None, stats=None, replay=None,
                 reason=None, findings=None):
        super().__init__(status=status, key=key, what=what, sigs=sorted(set(map(str, sigs))),
                         sample=sample, stats=stats or {}, replay=replay, reason=reason,
                         findings=findings or [])


class Ctx:
    def __init__(self, prop, tier, seed):
        self.prop, self.tier, self.seed = prop, tier, seed
        self.builds = {}
        self.repo = build.repo_root()
        self.db = os.path.join(self.repo, "database")
        self.workroot = os.path.join(WORK, "%s-%d" % (prop, os.getpid()))
        self.params = {}

    def rng(self, *parts):
        return random.Random("%s:%s:%s" % (self.seed, self.prop, ":".join(map(str, parts))))

    def bin(self, flavour, prog="vdrive"):
        return self.builds[flavour]["bin"][prog]

    def scratch(self, case_id):
        d = os.path.join(self.workroot, str(case_id))
        os.makedirs(d, exist_ok=True)
        return d


# ------------------------------------------------------------------------------- sanitizer reports
SAN_ENV = {
    "ASAN_OPTIONS": "abort_on_error=0:exitcode=99:detect_leaks=0:allocator_may_return_null=1:"
                    "detect_stack_use_after_return=0:malloc_context_size=12:symbolize=1:handle_abort=1",
    "UBSAN_OPTIONS": "print_stacktrace=1:halt_on_error=1:exitcode=99",
    "LSAN_OPTIONS": "exitcode=99",
    "TSAN_OPTIONS": "halt_on_error=0:exitcode=0:second_deadlock_stack=1:history_size=4",
}


def _frames(block):
    """function names of stack frames ('#N 0x.. in func file:line') in order, library frames only"""
    out = []
    for line in block.split("\n"):
        s = line.strip()
        if not s.startswith("#"):
            continue
        parts = s.split()
        fn = None
        if len(parts) >= 4 and parts[2] == "in":
            rest = s.split(" in ", 1)[1]
            # function name possibly with spaces/templates; location is the last token
            toks = rest.rsplit(" ", 1)
            fn = toks[0] if len(toks) == 2 else rest
            loc = toks[1] if len(toks) == 2 else ""
        elif len(parts) >= 3:
            fn, loc = parts[1], parts[-1]
        else:
            continue
        if "/harness/" in loc or "sanitizer" in loc or "libsanitizer" in loc or "/libc" in loc or "libstdc++" in loc or loc.startswith("/usr/"):
            lib = False
        else:
            lib = ("/src/" in loc) or ("(" not in loc)
        fn = fn.split("(")[0]
        out.append((fn, loc, lib))
    return out


def sanitizer_findings(stderr_text):
    """returns list of (key, text) for ASan / UBSan / LSan reports found in a process's stderr"""
    found = []
    t = stderr_text
    if "ERROR: AddressSanitizer" in t:
        i = t.index("ERROR: AddressSanitizer")
        blk = t[i:i + 6000]
        kind = blk.split("AddressSanitizer:", 1)[1].strip().split()[0] if "AddressSanitizer:" in blk else "unknown"
        fr = [f for f, loc, lib in _frames(blk) if lib and not f.startswith("__") and "operator" not in f][:2]
        found.append(("asan/%s/%s" % (kind, "<-".join(fr)), blk))
    if "runtime error:" in t:
        i = t.index("runtime error:")
        j = t.rfind("\n", 0, i) + 1
        blk = t[j:j + 3000]
        msg = blk.split("runtime error:", 1)[1].split("\n")[0].strip()
        words = [w for w in msg.split() if not any(c.isdigit() for c in w)][:6]
        fr = [f for f, loc, lib in _frames(blk) if lib][:1]
        src = os.path.basename(blk.split(":")[0])
        found.append(("ubsan/%s/%s/%s" % ("_".join(words), src, "<-".join(fr)), blk))
    if "ERROR: LeakSanitizer" in t:
        i = t.index("ERROR: LeakSanitizer")
        blk = t[i:i + 6000]
        fr = [f for f, loc, lib in _frames(blk) if lib and "operator" not in f and not f.startswith("__")][:2]
        found.append(("lsan/leak/%s" % "<-".join(fr), blk))
    return found


# ------------------------------------------------------------------------------- running vdrive
def text_block(tid, text):
    if isinstance(text, str):
        b = text.encode("latin-1", "replace")
    else:
        b = text
    return b"text %s %d\n" % (tid.encode(), len(b)) + b + b"\n"


class Script:
    """builder for vdrive scripts (bytes)"""

    def __init__(self):
        self.parts = []
        self.ntext = 0

    def raw(self, line):
        self.parts.append(line.encode("latin-1") + b"\n")
        return self

    def text(self, content, tid=None):
        if tid is None:
            self.ntext += 1
            tid = "t%d" % self.ntext
        self.parts.append(text_block(tid, content))
        return "@" + tid

    def run(self, inst, content):
        return self.raw("run %s %s" % (inst, self.text(content)))

    def bytes(self):
        return b"".join(self.parts)


def run_vdrive(exe, script_bytes, cwd, timeout=60, flavour="opt", extra_env=None, prog_args=()):
    """returns dict(records=[...], rc, stderr, timed_out, last_call)"""
    sp = os.path.join(cwd, "script.vd")
    with open(sp, "wb") as f:
        f.write(script_bytes)
    outp = os.path.join(cwd, "events.jsonl")
    env = dict(os.environ)
    env.update(SAN_ENV)
    if extra_env:
        env.update(extra_env)
    timed_out = False
    t0 = time.time()
    try:
        p = subprocess.run([exe, sp, outp] + list(prog_args), cwd=cwd, env=env, stdin=subprocess.DEVNULL,
                           stdout=subprocess.PIPE, stderr=subprocess.PIPE, timeout=timeout)
        rc, err = p.returncode, p.stderr.decode("latin-1")
    except subprocess.TimeoutExpired as e:
        timed_out, rc, err = True, None, (e.stderr or b"").decode("latin-1")
    recs = []
    try:
        with open(outp, "rb") as f:
            for line in f:
                line = line.strip()
                if not line:
                    continue
                try:
                    recs.append(json.loads(line))
                except ValueError:
                    recs.append({"ev": "garbled", "raw": line[:200].decode("latin-1")})
    except OSError:
        pass
    last_call = None
    open_calls = [r for r in recs if r.get("ev") == "call"]
    rets = {r.get("seq") for r in recs if r.get("ev") == "ret"}
    if open_calls:
        lc = open_calls[-1]
        if (lc["seq"] + 1) not in rets:
            last_call = lc
    return dict(records=recs, rc=rc, stderr=err, timed_out=timed_out, last_call=last_call,
                wall=time.time() - t0, complete=bool(recs) and recs[-1].get("ev") == "end")


def rets(run, op=None):
    return [r for r in run["records"] if r.get("ev") == "ret" and (op is None or r.get("op") == op)]


def process_failure(run):
    """classifies abnormal process ends. returns (kind, key, text) or None.
    kind: 'sanitizer' | 'signal' | 'exit_attempt' | 'timeout' | 'harness'"""
    if run["timed_out"]:
        return ("timeout", None, "watchdog")
    fs = sanitizer_findings(run["stderr"])
    if fs:
        return ("sanitizer", fs[0][0], fs[0][1])
    for r in run["records"]:
        if r.get("ev") == "process_exit_attempt":
            fr = [f for f, loc, lib in _frames(run["stderr"])][:3]
            return ("exit_attempt", "exit/%s" % r.get("what"), run["stderr"][-2000:])
    rc = run["rc"]
    if rc is not None and rc < 0:
        lc = run["last_call"] or {}
        return ("signal", "signal/%s/%s" % (signal.Signals(-rc).name, lc.get("op", "?")), run["stderr"][-2000:])
    if rc not in (0, None) or not run["complete"]:
        return ("harness", None, "rc=%s stderr=%s" % (rc, run["stderr"][-1500:]))
    return None


# ------------------------------------------------------------------------------- known findings
def load_known():
    try:
        d = json.load(open(KNOWN))
    except (OSError, ValueError):
        return []
    return d.get("findings", [])


def match_known(prop, key, known, what=""):
    """an open entry matches by key pattern and, when it carries 'requires', only if every string of that list occurs in the violation's description
    (a call site or frame: keeps an entry from covering other violations that end in the same function)"""
    for f in known:
        if f.get("property") in (prop, "*") and f.get("status") == "open" and key is not None and fnmatch.fnmatchcase(key, f.get("key", "")):
            if all(x in (what or "") for x in f.get("requires", [])):
                return f
    return None


# ------------------------------------------------------------------------------- the pool
_MOD = None
_CTX = None


def _worker(case):
    t0 = time.time()
    try:
        r = _MOD.run_case(_CTX, case)
    except Exception:
        r = Result(INCONCLUSIVE, reason="oracle exception: " + traceback.format_exc()[-1500:])
        r["harness_error"] = True
    r["case_id"] = case.get("id")
    r["wall"] = time.time() - t0
    if r["status"] == VIOLATED and not r.get("replay"):
        r["replay"] = {"case": case}
    d = os.path.join(_CTX.workroot, str(case.get("id")))
    if os.path.isdir(d) and not os.environ.get("VERIF_KEEP"):
        shutil.rmtree(d, ignore_errors=True)
    return r


def write_evidence(ctx, mod, level, coverage, wall, violations, extra=None):
    ev = {
        "property_id": ctx.prop, "tier": ctx.tier, "seed": ctx.seed, "level": level,
        "coverage": coverage, "assumptions": list(getattr(mod, "ASSUME", [])), "wall_s": round(wall, 2),
        "violations": violations,
    }
    if extra:
        ev.update(extra)
    os.makedirs(os.path.join(VERIF, "evidence"), exist_ok=True)
    path = os.path.join(VERIF, "evidence", ctx.prop + ".json")
    try:
        import jsonschema
        schema = json.load(open("/root/.vp/EVIDENCE.schema.json"))
        jsonschema.validate(ev, schema)
    except ImportError:
        pass
    except OSError:
        pass
    tmp = path + ".tmp"
    with open(tmp, "w") as f:
        json.dump(ev, f, indent=1, sort_keys=True, default=str)
        f.write("\n")
    os.replace(tmp, path)
    return path


def main(mod, argv=None):
    import argparse
    ap = argparse.ArgumentParser()
    ap.add_argument("--tier", default=os.environ.get("VERIF_TIER", "quick"), choices=["quick", "thorough"])
    ap.add_argument("--replay")
    ap.add_argument("--cases", type=int, help="override the case budget")
    ap.add_argument("--jobs", type=int, default=int(os.environ.get("VERIF_JOBS", "16")))
    ap.add_argument("--only", help="run only the case with this id")
    args = ap.parse_args(argv)
    try:
        seed = int(os.environ.get("VERIF_SEED", "1"))
    except ValueError:
        seed = 1
    if args.replay:
        # a replay file records the seed and tier it was written under: the case only means the same thing there
        try:
            rp = json.load(open(args.replay))
            seed = int(rp.get("seed", seed))
            if rp.get("tier") in ("quick", "thorough"):
                args.tier = rp["tier"]
        except (OSError, ValueError):
            print("HARNESS-FAILURE property=%s cannot read replay file %s" % (mod.PROP, args.replay))
            return 2
    ctx = Ctx(mod.PROP, args.tier, seed)
    ctx.params["cases"] = args.cases
    t0 = time.time()
    global _MOD, _CTX
    try:
        for fl in mod.FLAVOURS:
            ctx.builds[fl] = build.ensure(fl, getattr(mod, "PROGS", ("vdrive",)))
    except build.BuildError as e:
        print("HARNESS-FAILURE property=%s build: %s" % (ctx.prop, str(e)[:3000]))
        return 2
    os.makedirs(ctx.workroot, exist_ok=True)
    try:
        return _run(mod, ctx, args, t0)
    finally:
        shutil.rmtree(ctx.workroot, ignore_errors=True)


def _run(mod, ctx, args, t0):
    global _MOD, _CTX
    _MOD, _CTX = mod, ctx
    if hasattr(mod, "prepare"):
        mod.prepare(ctx)
    if args.replay:
        rp = json.load(open(args.replay))
        cases = [rp["case"]]
    else:
        cases = list(mod.gen_cases(ctx))
        if args.only:
            cases = [c for c in cases if str(c.get("id")) == args.only]
    budget = len(cases)
    results = []
    if args.jobs <= 1 or len(cases) <= 1:
        results = [_worker(c) for c in cases]
    else:
        mpc = multiprocessing.get_context("fork")
        with mpc.Pool(args.jobs) as pool:
            for r in pool.imap_unordered(_worker, cases, chunksize=1):
                results.append(r)
    results.sort(key=lambda r: str(r.get("case_id")))
    extra_cov = {}
    if hasattr(mod, "finish"):
        more = mod.finish(ctx, results) or {}
        extra_cov = more.get("coverage", {})
        results += more.get("results", [])
    known = load_known()
    # collect violations: a result may carry one primary key and additional findings
    viol = []   # (key, what, replay, result)
    for r in results:
        if r["status"] == VIOLATED:
            viol.append((r["key"], r["what"], r.get("replay"), r))
        for (k, w) in r.get("findings", []):
            viol.append((k, w, r.get("replay"), r))
    n_held = sum(1 for r in results if r["status"] == HELD)
    n_inc = sum(1 for r in results if r["status"] == INCONCLUSIVE)
    n_vio = sum(1 for r in results if r["status"] == VIOLATED)
    harness_errs = [r for r in results if r.get("harness_error")]
    sigs = set()
    for r in results:
        if r["status"] != INCONCLUSIVE:
            sigs.update(r["sigs"])
    stats = {}
    for r in results:
        for k, v in r["stats"].items():
            if k.startswith("n_"):
                stats[k] = stats.get(k, 0) + v
            elif k.startswith("set_"):
                stats.setdefault(k, set()).update(v)
            else:
                stats[k] = max(stats.get(k, v), v)
    for k in list(stats):
        if isinstance(stats[k], set):
            stats[k] = sorted(stats[k])
    reasons = {}
    for r in results:
        if r["status"] == INCONCLUSIVE:
            key = re.sub(r"[-+]?[0-9]+\.?[0-9]*([eE][-+]?[0-9]+)?", "#", (r.get("reason") or "?"))[:80]
            reasons[key] = reasons.get(key, 0) + 1
    samples = [r["sample"] for r in results if r.get("sample") is not None and r["status"] == HELD][:3]
    if not samples:
        samples = [r["sample"] for r in results if r.get("sample") is not None][:3]
    # known findings
    new, knownhits = {}, {}
    for key, what, replay, r in viol:
        f = match_known(ctx.prop, key, known, what)
        if f:
            knownhits.setdefault(f["key"], (f, 0))
            knownhits[f["key"]] = (f, knownhits[f["key"]][1] + 1)
        else:
            new.setdefault(key, (what, replay, r))
    rdir = os.path.join(WORK, "replay")
    os.makedirs(rdir, exist_ok=True)
    for key, (f, n) in sorted(knownhits.items()):
        print("KNOWN-FINDING: property=%s %s [key=%s, seen %d times]" % (ctx.prop, f.get("what", ""), key, n))
    for key, (what, replay, r) in sorted(new.items(), key=lambda kv: str(kv[0])):
        h = hashlib.sha256(("%s:%s" % (key, r.get("case_id"))).encode()).hexdigest()[:10]
        path = os.path.join(rdir, "%s-%s.json" % (ctx.prop, h))
        rp = dict(replay or {})
        rp.update({"property": ctx.prop, "key": key, "what": what, "seed": ctx.seed, "tier": ctx.tier})
        with open(path, "w") as f:
            json.dump(rp, f, indent=1, default=str)
        print("VIOLATION property=%s replay=%s" % (ctx.prop, path))
        print("  key=%s" % key)
        print("  %s" % (what or "")[:1500].replace("\n", "\n  "))
    coverage = {
        "evaluations": len(results),
        "distinct_nontrivial": len(sigs),
        "rule": getattr(mod, "RULE", ""),
        "samples": samples or ["(no conclusive case)"],
        "held": n_held, "inconclusive": n_inc, "violating_cases": n_vio,
        "inconclusive_reasons": reasons,
        "known_findings_seen": {k: n for k, (f, n) in knownhits.items()},
        "new_violation_keys": sorted(map(str, new)),
        "case_budget": len(results),
        "stats": stats,
        "nontrivial_signatures_sample": sorted(sigs)[:40],
    }
    coverage.update(extra_cov)
    wall = time.time() - t0
    min_conclusive = max(1, int(0.25 * len(results)))
    replaying = bool(args.replay or args.only)
    status = 0
    problems = []
    if new:
        status = 1
    else:
        if harness_errs:
            problems.append("%d oracle exceptions, first: %s" % (len(harness_errs), harness_errs[0].get("reason")))
        if (n_held + n_vio) < min_conclusive:
            problems.append("too few conclusive cases: %d of %d (need %d)" % (n_held + n_vio, len(results), min_conclusive))
        if len(sigs) < 2 and not replaying:
            problems.append("distinct_nontrivial=%d < 2" % len(sigs))
        if problems:
            status = 2
    try:
        if len(sigs) < 2 or not results:
            # schema needs >=2 / >=1: a run that observed nothing writes an honest 'other' record
            coverage["explanation"] = "run observed too little to decide anything: " + "; ".join(problems)
            write_evidence(ctx, mod, "other", coverage, wall, len(new))
        else:
            write_evidence(ctx, mod, getattr(mod, "LEVEL", "exploration"), coverage, wall, len(new))
    except Exception as e:
        print("HARNESS-FAILURE property=%s evidence: %s" % (ctx.prop, e))
        status = status or 2
    print("[%s %s seed=%d] cases=%d held=%d inconclusive=%d violating=%d new_keys=%d known_keys=%d distinct_nontrivial=%d wall=%.1fs"
          % (ctx.prop, ctx.tier, ctx.seed, len(results), n_held, n_inc, n_vio, len(new), len(knownhits), len(sigs), wall))
    if reasons:
        top = sorted(reasons.items(), key=lambda kv: -kv[1])[:5]
        print("  inconclusive: " + "; ".join("%dx %s" % (n, k) for k, n in top))
    for p in problems:
        print("HARNESS-FAILURE property=%s %s" % (ctx.prop, p))
    return status
