"""Seeded input generators shared by the checks (phreeqc.dat vocabulary unless told otherwise).
All randomness comes from the random.Random passed in."""
import math
import re

MAJOR = ["Na", "K", "Ca", "Mg", "Cl", "S(6)", "C(4)"]
MINOR = ["Si", "Sr", "Ba", "Fe", "Mn", "Al", "F", "Li", "Br", "B", "N(5)", "P", "Zn"]
CATIONS = {"Na": 1, "K": 1, "Ca": 2, "Mg": 2, "Sr": 2, "Ba": 2, "Li": 1, "Fe": 2, "Mn": 2, "Zn": 2}
ANIONS = {"Cl": 1, "S(6)": 2, "Br": 1, "N(5)": 1, "F": 1}
MINERALS = ["Calcite", "Dolomite", "Gypsum", "Anhydrite", "Quartz", "Chalcedony", "Fluorite", "Barite",
            "Celestite", "Strontianite", "Gibbsite", "Kaolinite", "Siderite", "Goethite", "Halite", "Aragonite",
            "Witherite", "Rhodochrosite", "SiO2(a)", "Fe(OH)3(a)"]
MINERAL_ELEMS = {
    "Calcite": ["Ca", "C(4)"], "Dolomite": ["Ca", "Mg", "C(4)"], "Gypsum": ["Ca", "S(6)"], "Anhydrite": ["Ca", "S(6)"],
    "Quartz": ["Si"], "Chalcedony": ["Si"], "Fluorite": ["Ca", "F"], "Barite": ["Ba", "S(6)"], "Celestite": ["Sr", "S(6)"],
    "Strontianite": ["Sr", "C(4)"], "Gibbsite": ["Al"], "Kaolinite": ["Al", "Si"], "Siderite": ["Fe", "C(4)"],
    "Goethite": ["Fe"], "Halite": ["Na", "Cl"], "Aragonite": ["Ca", "C(4)"], "Witherite": ["Ba", "C(4)"],
    "Rhodochrosite": ["Mn", "C(4)"], "SiO2(a)": ["Si"], "Fe(OH)3(a)": ["Fe"],
}
REACTANTS = ["NaCl", "HCl", "NaOH", "CaCl2", "KCl", "MgSO4", "Na2SO4", "CO2", "NaHCO3", "CaSO4", "H2O", "KNO3"]


def loguni(rng, lo, hi):
    return math.exp(rng.uniform(math.log(lo), math.log(hi)))


def fmt(x):
    return "%.6g" % x


def rng_range(a, b):
    return "%d-%d" % (a, b) if b > a else "%d" % a


REDOX_ACTIVE = ("Fe", "Mn", "N(5)", "P")
REDOX_FREE = False      # set by checks whose comparison would be ill-conditioned by a floating pe


def solution(rng, num, nelem=None, units="mmol/kgw", temp=None, ph=None, pe=None, charge="auto",
             elements=None, conc=(1e-3, 50.0), water=None, redox=False, desc=None, density=False):
    """SOLUTION block; concentrations in 'units' (numbers given for mmol scale)."""
    if elements is None:
        k = nelem if nelem is not None else rng.randint(2, 8)
        pool = MAJOR + MINOR
        elements = ["Na", "Cl"] if rng.random() < 0.8 else []
        while len(elements) < k:
            e = rng.choice(MAJOR if rng.random() < 0.7 else MINOR)
            if REDOX_FREE and e in REDOX_ACTIVE:
                continue
            if e not in elements:
                elements.append(e)
    lines = ["SOLUTION %s%s" % (num, (" " + desc) if desc else "")]
    if temp is None:
        temp = rng.choice([25, 25, 25, 10, 40, 60, 5, 80]) if rng.random() < 0.5 else 25
    lines.append(" temp %s" % fmt(temp))
    if ph is None:
        ph = round(rng.uniform(4.5, 9.5), 2)
    chg_on = None
    if charge == "auto":
        chg_on = rng.choice(["pH", "Cl", None, None]) if "Cl" in elements else rng.choice(["pH", None])
    else:
        chg_on = charge
    lines.append(" pH %s%s" % (fmt(ph), " charge" if chg_on == "pH" else ""))
    if pe is not None:
        lines.append(" pe %s" % fmt(pe))
    elif rng.random() < 0.3:
        lines.append(" pe %s" % fmt(round(rng.uniform(-2, 12), 1)))
    lines.append(" units %s" % units)
    if water is not None:
        lines.append(" -water %s" % fmt(water))
    # draw concentrations, then scale the anions so that the solution is roughly charge balanced
    cs = {}
    for e in elements:
        c = loguni(rng, *conc)
        if e in ("Al", "Fe", "Mn", "Ba", "Zn", "P", "F", "B", "Li", "Sr", "Br", "Si"):
            c = loguni(rng, 1e-4, 0.05)
        cs[e] = c
    cat = sum(cs[e] * CATIONS[e] for e in elements if e in CATIONS)
    anw = {"Cl": 1, "S(6)": 2, "Br": 1, "N(5)": 1, "F": 1, "C(4)": 1}
    an = sum(cs[e] * anw[e] for e in elements if e in anw)
    big_an = [e for e in elements if e in ("Cl", "S(6)", "C(4)", "N(5)")]
    big_cat = [e for e in elements if e in ("Na", "K", "Ca", "Mg")]
    if cat > 0 and an > 0 and big_an:
        f = cat / an * rng.uniform(0.9, 1.1)
        for e in big_an:
            cs[e] *= f
    elif cat > 0 and not big_an and big_cat:
        pass
    for e in elements:
        suffix = " charge" if e == chg_on else ""
        lines.append(" %s %s%s" % (e, fmt(cs[e]), suffix))
    if REDOX_FREE:
        # dissolved oxygen pins the redox state; without it pe floats and results become a discontinuous
        # function of the last digits of total O / total H
        lines.append(" O(0) %s" % fmt(0.2 if units.startswith("mmol") else 2e-4))
    return "\n".join(lines) + "\n"


def reaction(rng, num, steps=None):
    n = rng.randint(1, 3)
    rs = rng.sample(REACTANTS, n)
    lines = ["REACTION %s" % num]
    for r in rs:
        lines.append(" %s %s" % (r, fmt(rng.choice([1, 1, 0.5, 2]))))
    if steps is None:
        if rng.random() < 0.5:
            lines.append(" %s mmol in %d steps" % (fmt(loguni(rng, 0.1, 20)), rng.randint(1, 4)))
        else:
            k = rng.randint(1, 4)
            lines.append(" " + " ".join(fmt(loguni(rng, 0.05, 5)) for _ in range(k)) + " mmol")
    else:
        lines.append(" " + steps)
    return "\n".join(lines) + "\n"


def eq_phases(rng, num, phases=None, nmax=3):
    if phases is None:
        pool = ["Calcite", "Dolomite", "Gypsum", "Quartz", "Chalcedony", "Barite", "Celestite", "Fluorite", "Gibbsite", "Goethite", "CO2(g)"]
        if REDOX_FREE:
            pool.remove("Goethite")
        phases = rng.sample(pool, rng.randint(1, nmax))
    lines = ["EQUILIBRIUM_PHASES %s" % num]
    for p in phases:
        si = 0.0
        if p == "CO2(g)":
            si = round(rng.uniform(-3.5, -1), 2)
        elif rng.random() < 0.2:
            si = round(rng.uniform(-0.5, 0.5), 2)
        amt = rng.choice([10, 1, 0.1, 0.01, 0])
        lines.append(" %s %s %s" % (p, fmt(si), fmt(amt)))
    return "\n".join(lines) + "\n"


def exchange(rng, num, equil=None):
    lines = ["EXCHANGE %s" % num]
    if equil is not None:
        lines.append(" X %s" % fmt(loguni(rng, 1e-3, 0.5)))
        lines.append(" -equilibrate %s" % equil)
    else:
        for sp in rng.sample(["NaX", "KX", "CaX2", "MgX2"], rng.randint(1, 3)):
            lines.append(" %s %s" % (sp, fmt(loguni(rng, 1e-3, 0.2))))
    return "\n".join(lines) + "\n"


def surface(rng, num, equil=None, edl=None):
    lines = ["SURFACE %s" % num]
    if equil is not None:
        lines.append(" -equilibrate %s" % equil)
    w = loguni(rng, 1e-4, 5e-3)
    area, mass = rng.choice([600, 100, 53]), loguni(rng, 0.05, 2)
    lines.append(" Hfo_wOH %s %s %s" % (fmt(w), fmt(area), fmt(mass)))
    if rng.random() < 0.6:
        lines.append(" Hfo_sOH %s" % fmt(w / 40))
    if edl is None:
        edl = rng.choice(["", "", "-no_edl", "-diffuse_layer 1e-8", "-donnan"])
    if edl:
        lines.append(" " + edl)
    return "\n".join(lines) + "\n"


def gas_phase(rng, num, fixed=None):
    lines = ["GAS_PHASE %s" % num]
    if fixed is None:
        fixed = rng.choice(["p", "v"])
    if fixed == "p":
        lines += [" -fixed_pressure", " -pressure %s" % fmt(rng.choice([1, 0.5, 2])), " -volume %s" % fmt(loguni(rng, 0.1, 5))]
    else:
        lines += [" -fixed_volume", " -volume %s" % fmt(loguni(rng, 0.1, 5))]
    lines.append(" -temperature 25")
    for g in rng.sample(["CO2(g)", "H2O(g)"] if REDOX_FREE else ["CO2(g)", "N2(g)", "O2(g)", "CH4(g)"], rng.randint(1, 2 if REDOX_FREE else 3)):
        lines.append(" %s %s" % (g, fmt(loguni(rng, 1e-3, 0.5))))
    return "\n".join(lines) + "\n"


def solid_solution(rng, num):
    lines = ["SOLID_SOLUTIONS %s" % num, " CaSrCO3"]
    lines.append(" -comp Calcite %s" % fmt(loguni(rng, 1e-3, 0.1)))
    lines.append(" -comp Strontianite %s" % fmt(loguni(rng, 1e-4, 0.01)))
    if rng.random() < 0.4:
        lines.append(" -Gugg_nondim %s %s" % (fmt(round(rng.uniform(0.5, 3.5), 2)), fmt(round(rng.uniform(-1.8, 0.5), 2))))      # non-ideal: ag0 / ag1 are part of the state
    return "\n".join(lines) + "\n"


RATE_SIMPLE = """RATES
 zero_rate
-start
10 rate = PARM(1)
20 moles = rate * TIME
30 IF (moles > M) THEN moles = M
40 SAVE moles
-end
 first_rate
-start
10 moles = PARM(1) * M * TIME
20 SAVE moles
-end
 greedy_rate
-start
10 REM asks for rate * time whatever is left: the integrator has to stop at the amount present
20 moles = PARM(1) * TIME
30 SAVE moles
-end
"""


def kinetics(rng, num, cvode=None):
    name = rng.choice(["zero_rate", "first_rate", "greedy_rate"])
    lines = ["KINETICS %s" % num, " " + name, " -formula %s 1" % rng.choice(["NaCl", "KCl", "CaSO4", "NaBr"]),
             " -m0 %s" % fmt(loguni(rng, 1e-3, 1e-2))]
    if name == "zero_rate":
        lines.append(" -parms %s" % fmt(loguni(rng, 1e-9, 1e-7)))
    elif name == "greedy_rate":
        lines.append(" -parms %s" % fmt(loguni(rng, 1e-8, 1e-5)))      # with 1e3..1e5 s this often exceeds the 1e-3..1e-2 mol present
    else:
        lines.append(" -parms %s" % fmt(loguni(rng, 1e-6, 1e-4)))
    lines.append(" -tol 1e-9")
    k = rng.randint(1, 3)
    lines.append(" -steps %s in %d steps" % (fmt(loguni(rng, 1e3, 1e5)), k))
    if cvode is None:
        cvode = rng.random() < 0.3
    if cvode:
        lines.append(" -cvode true")
    else:
        lines.append(" -runge_kutta %d" % rng.choice([1, 2, 3, 6]))
    return "\n".join(lines) + "\n"


PUNCH_OPTS = ["-totals Na Cl Ca C(4) S(6)", "-molalities Na+ Cl- HCO3- CaSO4 OH-", "-activities H+ Ca+2 Cl-",
              "-saturation_indices Calcite Gypsum CO2(g) Halite", "-equilibrium_phases Calcite Gypsum Dolomite",
              "-gases CO2(g) N2(g)", "-kinetic_reactants zero_rate first_rate greedy_rate", "-solid_solutions Calcite Strontianite",
              "-ionic_strength true", "-water true", "-charge_balance true", "-percent_error true", "-alkalinity true",
              "-temperature true", "-ph true", "-pe true", "-step true", "-time true", "-distance true", "-state true",
              "-solution true", "-reaction true"]


def selected_output(rng, num=None, reset=None, high_precision=None, nopts=None, file=None):
    lines = ["SELECTED_OUTPUT%s" % ("" if num is None else " %d" % num)]
    if file:
        lines.append(" -file %s" % file)
    if reset is None:
        reset = rng.random() < 0.5
    if reset is False:
        lines.append(" -reset false")
    if high_precision is None:
        high_precision = rng.random() < 0.4
    if high_precision:
        lines.append(" -high_precision true")
    k = nopts if nopts is not None else rng.randint(0, 5)
    for o in rng.sample(PUNCH_OPTS, k):
        lines.append(" " + o)
    return "\n".join(lines) + "\n"


def user_punch(rng, num=None, nvals=None, strings=True):
    n = nvals if nvals is not None else rng.randint(1, 5)
    nh = n + rng.choice([0, 0, 0, -1, 1]) if n > 1 else n
    heads = ["up%d_%d" % (num or 1, i) for i in range(max(nh, 0))]
    lines = ["USER_PUNCH%s" % ("" if num is None else " %d" % num)]
    if heads:
        lines.append(" -headings " + " ".join(heads))
    lines.append(" -start")
    exprs = ["TOT(\"Na\")", "MOL(\"Cl-\")", "-LA(\"H+\")", "MU", "TC", "SIM_TIME", "STEP_NO", "CELL_NO", "TOT(\"water\")", "1/3", "1e-30",
             "123456789", "SI(\"Calcite\")", "ALK", "CHARGE_BALANCE"]
    for i in range(n):
        if strings and rng.random() < 0.25:
            word = "s%d" % rng.randint(0, 99)
            if rng.random() < 0.5:
                word = (word + "_abcdefghijklmnopqrstuvwxyz0123456789")[:rng.choice([5, 11, 12, 13, 16, 19, 20, 21, 30])]      # around the 12- and 20-character field widths
            lines.append(" %d PUNCH \"%s\"" % (10 * (i + 1), word))
        else:
            lines.append(" %d PUNCH %s" % (10 * (i + 1), rng.choice(exprs)))
    lines.append(" -end")
    return "\n".join(lines) + "\n"


def knobs(rng):
    opts = ["-iterations %d" % rng.choice([100, 150, 200]), "-tolerance %s" % rng.choice(["1e-15", "1e-14", "1e-16"]),
            "-step_size %d" % rng.choice([100, 10, 50]), "-pe_step_size %d" % rng.choice([10, 5, 2]),
            "-diagonal_scale %s" % rng.choice(["true", "false"]), "-convergence_tolerance %s" % rng.choice(["1e-8", "1e-10", "1e-12"])]
    return "KNOBS\n" + "".join(" %s\n" % o for o in rng.sample(opts, rng.randint(1, 4)))


def print_block(rng):
    opts = ["-reset %s" % rng.choice(["true", "false"]), "-species %s" % rng.choice(["true", "false"]),
            "-saturation_indices %s" % rng.choice(["true", "false"]), "-totals %s" % rng.choice(["true", "false"]),
            "-selected_output %s" % rng.choice(["true", "true", "false"]), "-status false", "-echo_input %s" % rng.choice(["true", "false"]),
            "-warnings %d" % rng.choice([10, 100, 0])]
    return "PRINT\n" + "".join(" %s\n" % o for o in rng.sample(opts, rng.randint(1, 4)))


def transport_block(rng, cells, shifts=None, kind=None):
    if kind is None:
        kind = rng.choice(["advection", "transport"])
    if shifts is None:
        shifts = rng.randint(1, 5)
    if kind == "advection":
        return "ADVECTION\n -cells %d\n -shifts %d\n -time_step 100\n -punch_frequency 1\n" % (cells, shifts)
    lines = ["TRANSPORT", " -cells %d" % cells, " -shifts %d" % shifts, " -lengths %s" % fmt(rng.choice([1, 0.5, 0.1])),
             " -time_step %s" % fmt(rng.choice([3600, 100, 1e4])), " -flow_direction %s" % rng.choice(["forward", "back", "diffusion_only"]),
             " -boundary_conditions %s %s" % (rng.choice(["flux", "constant", "closed"]), rng.choice(["flux", "constant", "closed"])),
             " -dispersivities %s" % fmt(rng.choice([0, 0.01, 0.1])), " -diffusion_coefficient %s" % fmt(rng.choice([0, 1e-9, 3e-10])),
             " -punch_frequency 1"]
    return "\n".join(lines) + "\n"


def multi_sim_input(rng, nsims=None, selout=True):
    """an error-free multi-simulation input exercising persistence of definitions between simulations"""
    n = nsims or rng.randint(3, 7)
    sims = []
    have_sol = set()
    have = {"exchange": set(), "surface": set(), "equilibrium_phases": set(), "gas_phase": set(), "kinetics": set(), "solid_solutions": set()}
    rates_defined = False
    so_defined = False
    first = ""
    if rng.random() < 0.5:
        first += "TITLE generated chain\n"
    for i in range(n):
        t = ""
        if i == 0:
            t += first
            for k in range(rng.randint(1, 3)):
                t += solution(rng, k + 1)
                have_sol.add(k + 1)
            if selout and rng.random() < 0.7:
                t += selected_output(rng, None if rng.random() < 0.5 else rng.randint(1, 3))
                so_defined = True
            if selout and rng.random() < 0.5:
                t += user_punch(rng, None, strings=False)
            if rng.random() < 0.4:
                t += knobs(rng)
            if rng.random() < 0.4:
                t += print_block(rng)
            sims.append(t + "END\n")
            continue
        choice = rng.choice(["react", "react", "eq", "exch", "surf", "gas", "kin", "mix", "newsol", "selout", "knobs", "ss", "adv", "copy", "runcells"])
        if choice == "selout" and not selout:
            choice = "react"
        src = rng.choice(sorted(have_sol))
        if choice == "react":
            t += "USE solution %d\n" % src + reaction(rng, 1)
            if rng.random() < 0.5:
                dst = rng.randint(1, 6)
                t += "SAVE solution %d\n" % dst
                have_sol.add(dst)
        elif choice == "eq":
            num = rng.randint(1, 3)
            t += "USE solution %d\n" % src + eq_phases(rng, num)
            if rng.random() < 0.6:
                t += "SAVE equilibrium_phases %d\n" % num
            if rng.random() < 0.4:
                dst = rng.randint(1, 6)
                t += "SAVE solution %d\n" % dst
                have_sol.add(dst)
        elif choice == "exch":
            num = rng.randint(1, 3)
            t += exchange(rng, num, equil=src if rng.random() < 0.5 else None)
            t += "USE solution %d\nUSE exchange %d\n" % (src, num)
            t += reaction(rng, 2)
        elif choice == "surf":
            num = rng.randint(1, 3)
            t += surface(rng, num, equil=src, edl=rng.choice(["", "-no_edl"]))
            t += "USE solution %d\nUSE surface %d\n" % (src, num)
        elif choice == "gas":
            num = rng.randint(1, 3)
            t += gas_phase(rng, num) + "USE solution %d\nUSE gas_phase %d\n" % (src, num)
            if rng.random() < 0.5:
                t += "SAVE gas_phase %d\n" % num
        elif choice == "kin":
            if not rates_defined:
                t += RATE_SIMPLE
                rates_defined = True
            t += kinetics(rng, 1) + "USE solution %d\n" % src
            if rng.random() < 0.3:
                t += "INCREMENTAL_REACTIONS %s\n" % rng.choice(["true", "false"])
        elif choice == "mix":
            others = sorted(have_sol)
            a, b = rng.choice(others), rng.choice(others)
            t += "MIX 1\n %d %s\n %d %s\n" % (a, fmt(rng.uniform(0.1, 1)), b, fmt(rng.uniform(0.1, 1)))
            dst = rng.randint(1, 6)
            t += "SAVE solution %d\n" % dst
            have_sol.add(dst)
        elif choice == "newsol":
            a = rng.randint(1, 6)
            b = a + rng.choice([0, 0, 1])
            t += solution(rng, rng_range(a, b))
            have_sol.update(range(a, b + 1))
        elif choice == "selout":
            t += selected_output(rng, None if rng.random() < 0.5 else rng.randint(1, 3))
            if rng.random() < 0.5:
                t += user_punch(rng, None, strings=False)
            t += "USE solution %d\n" % src + reaction(rng, 1)
        elif choice == "knobs":
            t += knobs(rng) + print_block(rng) + "USE solution %d\n" % src + reaction(rng, 1)
        elif choice == "ss":
            t += solid_solution(rng, 1) + "USE solution %d\n" % src
        elif choice == "adv":
            cells = rng.randint(2, 4)
            t += solution(rng, "0-%d" % (cells + 1), elements=["Na", "Cl", "K", "N(5)"])
            have_sol.update(range(0, cells + 2))
            t += transport_block(rng, cells)
        elif choice == "copy":
            dst = rng.randint(1, 8)
            t += "COPY solution %d %d\n" % (src, dst)
            have_sol.add(dst)
        elif choice == "runcells":
            t += "RUN_CELLS\n -cells %d\n" % src
        sims.append(t + "END\n")
    return "".join(sims)


# ------------------------------------------------------------------------------------------------
# rich reaction states (C10, C14, C02): every entity kind with optional fields, phreeqc.dat vocabulary
PRELUDE = RATE_SIMPLE + "KNOBS\n -convergence_tolerance 1e-10\n -iterations 300\n"

SURF_MODELS = ["", "-no_edl", "-diffuse_layer 1e-8", "-donnan 1e-8", "-donnan debye_lengths 2", "-only_counter_ions true\n -donnan",
               "-cd_music", "-ccm"]


def surface_full(rng, num, equil, model=None):
    if model is None:
        model = rng.choice(SURF_MODELS)
    lines = ["SURFACE %s" % num, " -equilibrate %s" % equil]
    w = loguni(rng, 2e-4, 3e-3)
    area, mass = rng.choice([600, 100, 53]), loguni(rng, 0.1, 2)
    if model == "-cd_music":
        lines.append(" Hfo_wOH %s %s %s" % (fmt(w), fmt(area), fmt(mass)))
        lines.append(" -capacitances 1.0 5.0")
        lines.append(" -cd_music")
    elif model == "-ccm":
        lines.append(" Hfo_wOH %s %s %s" % (fmt(w), fmt(area), fmt(mass)))
        lines.append(" -ccm %s" % fmt(rng.choice([1.0, 0.8, 2.5])))
    else:
        lines.append(" Hfo_wOH %s %s %s" % (fmt(w), fmt(area), fmt(mass)))
        if rng.random() < 0.6:
            lines.append(" Hfo_sOH %s" % fmt(w / 40))
        if model:
            lines.append(" " + model)
    return "\n".join(lines) + "\n"


# a CD-MUSIC surface whose species distribute their charge over the 0-, 1- and 2-plane (phreeqc.dat's Hfo species carry no charge-distribution parameters,
# so the outer capacitance and the plane charges have no effect with them)
GOE_DEFS = """SURFACE_MASTER_SPECIES
 Goe_uni Goe_uniOH-0.5
SURFACE_SPECIES
 Goe_uniOH-0.5 = Goe_uniOH-0.5
  log_k 0
  -cd_music 0 0 0 0 0
 Goe_uniOH-0.5 + H+ = Goe_uniOH2+0.5
  log_k 9.2
  -cd_music 1 0 0 0 0
 Goe_uniOH-0.5 + Na+ = Goe_uniOHNa+0.5
  log_k -1
  -cd_music 0 1 0 0 0
 Goe_uniOH-0.5 + H+ + Cl- = Goe_uniOH2Cl-0.5
  log_k 8.75
  -cd_music 1 -1 0 0 0
 Goe_uniOH-0.5 + Ca+2 = Goe_uniOHCa+1.5
  log_k 2.85
  -cd_music 0.32 1.68 0 0 0
"""


def surface_cdmusic_goe(rng, num, equil):
    c1, c2 = rng.choice([(0.98, 0.73), (1.0, 5.0), (1.1, 0.2), (0.85, 0.75), (2.0, 0.9)])
    return "SURFACE %s\n -equilibrate %s\n Goe_uniOH-0.5 %s %s %s\n -capacitances %s %s\n -cd_music\n" % (
        num, equil, fmt(loguni(rng, 2e-4, 3e-3)), fmt(rng.choice([96, 45])), fmt(loguni(rng, 0.5, 5)), fmt(c1), fmt(c2))


def rich_state(rng, ncells=None, allow=None):
    """returns (prelude, input, cells, kinds) : a multi-simulation input that leaves numbered entities of many kinds in cells 1..n"""
    n = ncells or rng.randint(1, 3)
    kinds = set()
    t = ""
    for c in range(1, n + 1):
        sol = solution(rng, c, charge="pH", temp=rng.choice([25, 25, 15, 40]))
        if rng.random() < 0.08:
            sol += " -isotope 13C %s\n -isotope 18O %s\n" % (fmt(rng.uniform(-20, 2)), fmt(rng.uniform(-10, 0)))
            kinds.add("isotopes")
        if rng.random() < 0.2:
            sol = sol.replace(" units", " pressure %s\n units" % fmt(rng.choice([1, 5, 20])), 1)
        t += sol
        pool = ["eq", "exch", "surf", "gas", "ss", "kin", "react", "temp", "pres", "mix"]
        if allow is not None:
            pool = [p for p in pool if p in allow]
        chosen = rng.sample(pool, rng.randint(1, min(5, len(pool))))
        for k in chosen:
            kinds.add(k)
            if k == "eq":
                t += eq_phases(rng, c, nmax=4)
                if rng.random() < 0.3:
                    t += " Kaolinite 0 %s dissolve_only\n" % fmt(loguni(rng, 1e-3, 1e-1))
            elif k == "exch":
                t += exchange(rng, c, equil=c if rng.random() < 0.7 else None)
            elif k == "surf":
                if rng.random() < 0.2:
                    t += surface_cdmusic_goe(rng, c, c)
                    kinds.add("cd_music_goe")
                else:
                    t += surface_full(rng, c, c)
            elif k == "gas":
                t += gas_phase(rng, c)
            elif k == "ss":
                t += solid_solution(rng, c)
            elif k == "kin":
                kt = kinetics(rng, c)
                if rng.random() < 0.3:
                    # explicit list of times, long enough to be wrapped over several lines by DUMP
                    ts = sorted(loguni(rng, 1e2, 1e4) for _ in range(rng.randint(6, 9)))
                    kt = re.sub(r" -steps [^\n]*", " -steps " + " ".join(fmt(x) for x in ts), kt)
                t += kt
            elif k == "react":
                # one case in three: more step amounts than fit on one line of the DUMP text
                t += reaction(rng, c, steps=(" ".join(fmt(loguni(rng, 0.05, 3)) for _ in range(rng.randint(6, 14))) + " mmol") if rng.random() < 0.35 else None)
            elif k == "temp":
                if rng.random() < 0.3:
                    t += "REACTION_TEMPERATURE %d\n %s\n" % (c, " ".join(fmt(round(rng.uniform(10, 60), 1)) for _ in range(rng.randint(6, 12))))
                else:
                    t += "REACTION_TEMPERATURE %d\n %s\n" % (c, fmt(rng.choice([20, 35, 50])))
            elif k == "pres":
                if rng.random() < 0.3:
                    t += "REACTION_PRESSURE %d\n %s\n" % (c, " ".join(fmt(round(rng.uniform(1, 20), 1)) for _ in range(rng.randint(6, 12))))
                else:
                    t += "REACTION_PRESSURE %d\n %s\n" % (c, fmt(rng.choice([1, 3, 10])))
            elif k == "mix":
                t += "MIX %d\n %d %s\n %d %s\n" % (c, c, fmt(rng.uniform(0.3, 1)), rng.randint(1, c), fmt(rng.uniform(0.1, 0.7)))
        # exchangers whose amount belongs to a kinetic reactant or to a mineral of the same cell (NaX rate kinetic_reactant 0.1 / CaX2 Calcite equilibrium_phase 0.05)
        if "exch" in chosen and "kin" in chosen and rng.random() < 0.4:
            mk = re.search(r"KINETICS %d\n (\S+)\n -formula (\S+)" % c, t)
            if mk:
                # the exchanger's own elements must occur in the reactant's formula
                xsp = {"Na": "NaX", "K": "KX", "Ca": "CaX2"}[next(e for e in ("Na", "K", "Ca") if mk.group(2).startswith(e))]
                t = re.sub(r"EXCHANGE %d\n(?: [^\n]*\n)+" % c, "EXCHANGE %d\n %s %s kinetic_reactant %s\n" % (c, xsp, mk.group(1), fmt(round(rng.uniform(0.05, 0.5), 3))), t)
                kinds.add("exch_kinetic")
                if rng.random() < 0.7:
                    # the defining simulation reacts the cell once; a kinetic reactant is updated in place by that, an exchanger only when it is saved
                    t += "SAVE solution %d\nSAVE exchange %d\n" % (c, c)
        elif "exch" in chosen and "eq" in chosen and rng.random() < 0.3:
            mp = re.search(r"EQUILIBRIUM_PHASES %d\n (\S+) \S+ (\S+)" % c, t)
            if mp and mp.group(1) != "CO2(g)" and float(mp.group(2)) > 0:
                t = re.sub(r"EXCHANGE %d\n(?: [^\n]*\n)+" % c, "EXCHANGE %d\n %s %s equilibrium_phase %s\n" % (c, rng.choice(["CaX2", "NaX"]), mp.group(1), fmt(round(rng.uniform(0.02, 0.2), 3))), t)
                kinds.add("exch_phase")
                if rng.random() < 0.7:
                    t += "SAVE solution %d\nSAVE exchange %d\nSAVE equilibrium_phases %d\n" % (c, c, c)
        if "eq" in kinds and "gas" in kinds:
            # the same gas as a pure phase of fixed fugacity and as a component of the GAS_PHASE of that cell has no unique equilibrium (the manual says
            # to define a gas in one of the two): the pure-phase line goes
            t = "\n".join(l for l in t.split("\n") if not (l.startswith(" CO2(g) ") and len(l.split()) == 3)) + ("\n" if not t.endswith("\n") else "")
            t = t if t.endswith("\n") else t + "\n"
        t += "END\n"
    # run the cells once so that the saved state is a calculated one (arbitrary history)
    if rng.random() < 0.7:
        t += "RUN_CELLS\n -cells 1-%d\n -time_step %s\nEND\n" % (n, fmt(loguni(rng, 10, 1e4)))
        kinds.add("run_cells")
    return PRELUDE + (GOE_DEFS if "cd_music_goe" in kinds else ""), t, list(range(1, n + 1)), sorted(kinds)


FOLLOW_SELOUT = """SELECTED_OUTPUT 1
 -reset false
 -high_precision true
 -ph true
 -alkalinity true
 -ionic_strength true
 -water true
 -charge_balance true
 -totals Na K Ca Mg Cl S(6) C(4) Si Sr Ba Fe Mn Al F Li Br B N(5) P Zn
 -equilibrium_phases Calcite Dolomite Gypsum Quartz Chalcedony Barite Celestite Fluorite Gibbsite Goethite CO2(g) Kaolinite
 -gases CO2(g) N2(g) O2(g) CH4(g)
 -kinetic_reactants zero_rate first_rate greedy_rate
 -solid_solutions Calcite Strontianite
 -molalities NaX KX CaX2 MgX2 Hfo_wOH Hfo_wOH2+ Hfo_wO- Hfo_sOH Hfo_wOCa+ Goe_uniOH2+0.5 Goe_uniOHNa+0.5 Goe_uniOH2Cl-0.5
"""
