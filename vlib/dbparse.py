"""Independent reader of PHREEQC database *text* (no code shared with the engine).

Parses what the numeric oracles need: SOLUTION_MASTER_SPECIES, SOLUTION_SPECIES, PHASES, EXCHANGE_/SURFACE_MASTER_SPECIES and
_SPECIES, NAMED_EXPRESSIONS, LLNL_AQUEOUS_MODEL_PARAMETERS; formulas; charges.  Identifier matching follows the manual:
an identifier written with a leading '-' may be abbreviated (it selects the first identifier of the block's list that it is a
prefix of); written without '-' it must be spelled completely.
Anything the parser cannot interpret is recorded in db.problems; oracles skip entries marked bad instead of guessing.
"""
import math
import re

KEYWORDS = {"SOLUTION_MASTER_SPECIES", "SOLUTION_SPECIES", "PHASES", "EXCHANGE_MASTER_SPECIES", "EXCHANGE_SPECIES", "SURFACE_MASTER_SPECIES",
            "SURFACE_SPECIES", "NAMED_EXPRESSIONS", "NAMED_ANALYTICAL_EXPRESSIONS", "NAMED_ANALYTICAL_EXPRESSION", "NAMED_LOG_K", "LLNL_AQUEOUS_MODEL_PARAMETERS",
            "LLNL_AQUEOUS_MODEL", "RATES", "PITZER", "SIT", "END", "ISOTOPES", "ISOTOPE_RATIOS", "ISOTOPE_ALPHAS", "CALCULATE_VALUES", "SOLUTION", "KNOBS", "PRINT",
            "SELECTED_OUTPUT", "USER_PUNCH", "USER_PRINT", "USER_GRAPH", "TITLE", "MEAN_GAMMAS", "GAS_BINARY_PARAMETERS", "RATE_PARAMETERS_PK",
            "RATE_PARAMETERS_SVD", "RATE_PARAMETERS_HERMANSKA", "EQUILIBRIUM_PHASES", "KINETICS", "REACTION", "MIX", "EXCHANGE", "SURFACE", "GAS_PHASE",
            "SOLID_SOLUTIONS", "INCREMENTAL_REACTIONS", "SAVE", "USE", "DATABASE", "TRANSPORT", "ADVECTION", "INVERSE_MODELING", "COPY", "DELETE", "DUMP", "RUN_CELLS"}
SPECIES_IDS = ["no_check", "check", "gamma", "mb", "mass_balance", "log_k", "logk", "delta_h", "deltah", "analytical_expression", "a_e", "ae", "mole_balance",
               "llnl_gamma", "co2_llnl_gamma", "activity_water", "add_logk", "add_log_k", "add_constant", "dw", "erm_ddl", "millero", "vm", "viscosity"]
PHASE_IDS = ["no_check", "check", "log_k", "logk", "delta_h", "deltah", "analytical_expression", "a_e", "ae", "add_logk", "add_log_k", "add_constant", "t_c", "p_c",
             "omega", "vm"]
NAMED_IDS = ["log_k", "logk", "delta_h", "deltah", "analytical_expression", "a_e", "ae", "ln_alpha1000", "add_logk", "add_log_k", "vm"]
CANON = {"logk": "log_k", "deltah": "delta_h", "a_e": "analytical_expression", "ae": "analytical_expression", "add_log_k": "add_logk", "mb": "mass_balance"}
JOULES_PER_CALORIE = 4.184
R_KJ = 8.31470e-3          # kJ / (K mol), the value PHREEQC documents


def match_id(tok, ids):
    """returns canonical identifier or None"""
    t = tok.lower()
    if t.startswith("-"):
        t = t[1:]
        if not t:
            return None
        for i in ids:
            if i.startswith(t):
                return CANON.get(i, i)
        return None
    if t in ids:
        return CANON.get(t, t)
    return None


NUM = r"[-+]?(?:\d+\.?\d*|\.\d+)(?:[eE][-+]?\d+)?"


def to_float(s):
    try:
        return float(s.replace("d", "e").replace("D", "e"))
    except ValueError:
        return None


def charge_of(name):
    """trailing charge of a species name: 'Ca+2' -> 2, 'Cl-' -> -1, 'Fe+++' -> 3, 'SO4-2' -> -2, 'H2O' -> 0.  returns (base, z)"""
    m = re.search(r"([+-])(\d+\.?\d*)$", name)
    if m and not re.search(r"[+-]$", name[:m.start()] or "x"):
        return name[:m.start()], (1 if m.group(1) == "+" else -1) * float(m.group(2))
    m = re.search(r"(\++|-+)$", name)
    if m:
        s = m.group(1)
        return name[:m.start()], (1 if s[0] == "+" else -1) * float(len(s))
    return name, 0.0


def parse_formula(f):
    """element -> count for a chemical formula with nested parentheses, decimal subscripts, [isotope] names and ':' hydrates."""
    f = f.strip()
    out = {}

    def add(d, k, v):
        d[k] = d.get(k, 0.0) + v

    def parse(s, i, stop):
        d = {}
        while i < len(s) and s[i] not in stop:
            c = s[i]
            if c == "(":
                sub, i = parse(s, i + 1, ")")
                if i >= len(s) or s[i] != ")":
                    raise ValueError("unbalanced ( in %r" % f)
                i += 1
                m = re.match(NUM, s[i:])
                n = 1.0
                if m and not m.group(0).startswith(("+", "-")):
                    n = float(m.group(0))
                    i += m.end()
                for k, v in sub.items():
                    add(d, k, v * n)
            elif c == "[":
                j = s.index("]", i)
                el = s[i:j + 1]
                i = j + 1
                m = re.match(r"[a-z_]+", s[i:])
                if m:
                    el += m.group(0)
                    i += m.end()
                m = re.match(NUM, s[i:])
                n = 1.0
                if m and not m.group(0).startswith(("+", "-")):
                    n = float(m.group(0))
                    i += m.end()
                add(d, el, n)
            elif c.isupper():
                m = re.match(r"[A-Z][a-z_]*", s[i:])
                el = m.group(0)
                i += m.end()
                # a valence annotation, as in the mole-balance formulas 'S(-2)5' or 'Fe(+3)2': the element in that redox state, not a group
                mv = re.match(r"\(([+-]?\d+(?:\.\d+)?)\)", s[i:])
                if mv:
                    i += mv.end()
                m = re.match(NUM, s[i:])
                n = 1.0
                if m and not m.group(0).startswith(("+", "-")):
                    n = float(m.group(0))
                    i += m.end()
                add(d, el, n)
            elif c == ":":
                i += 1
                m = re.match(NUM, s[i:])
                n = 1.0
                if m and not m.group(0).startswith(("+", "-")):
                    n = float(m.group(0))
                    i += m.end()
                sub, i = parse(s, i, stop + ":")
                for k, v in sub.items():
                    add(d, k, v * n)
            elif c in "+-" or c.isdigit() or c == ".":
                raise ValueError("unexpected %r in formula %r" % (c, f))
            else:
                raise ValueError("unexpected %r in formula %r" % (c, f))
        return d, i

    d, i = parse(f, 0, "")
    if i != len(f):
        raise ValueError("trailing text in formula %r" % f)
    return d


def species_elements(name):
    base, z = charge_of(name)
    return parse_formula(base)


class Rxn:
    """a database reaction: terms = list of (coef, species) with reactants negative and products positive"""

    def __init__(self):
        self.name = None
        self.eq_text = ""
        self.terms = []
        self.log_k = None
        self.delta_h = None        # kJ/mol
        self.analytic = None       # list of up to 6 floats
        self.add_logk = []         # (name, coef)
        self.add_constant = 0.0
        self.gamma = None          # (a, b) for -gamma
        self.llnl_gamma = None
        self.co2_llnl_gamma = False
        self.no_check = False
        self.mole_balance = None
        self.t_c = self.p_c = self.omega = None
        self.vm = None
        self.formula = None        # phases
        self.bad = None
        self.kind = "aq"
        self.gmodel = None         # which activity-coefficient identifier came last: wateq | llnl | llnl_co2 | activity_water | None (default)
        self.line = 0


def parse_equation(text):
    """'Ca+2 + CO3-2 = CaCO3' -> (left terms, right terms) each [(coef, name)]"""
    if "=" not in text:
        raise ValueError("no '=' in equation %r" % text)
    lhs, rhs = text.split("=", 1)
    sides = []
    for side in (lhs, rhs):
        terms = []
        toks = side.split()
        sign, coef = 1.0, None
        for t in toks:
            if t == "+":
                sign = 1.0
                continue
            if t == "-":
                sign = -1.0
                continue
            v = to_float(t) if re.fullmatch(NUM, t) else None
            if v is not None:
                coef = v
                continue
            m = re.match(r"^(%s)?(.*)$" % NUM, t)
            c2, name = 1.0, t
            if m and m.group(1) and m.group(2) and (m.group(2)[0].isalpha() or m.group(2)[0] in "([") and not m.group(1).startswith(("+", "-")):
                c2, name = float(m.group(1)), m.group(2)
            c = sign * (coef if coef is not None else 1.0) * c2
            terms.append((c, name))
            sign, coef = 1.0, None
        sides.append(terms)
    return sides[0], sides[1]


class DB:
    def __init__(self, path):
        self.path = path
        self.elements = {}         # element name -> dict(master, alk, gfw_formula, gfw)
        self.master_species = {}   # species name -> [element names it is master of]
        self.species = {}          # name -> Rxn   (aqueous)
        self.phases = {}
        self.exchange_master = {}  # element -> species
        self.exchange_species = {}
        self.surface_master = {}
        self.surface_species = {}
        self.named = {}            # name -> Rxn (log_k, delta_h, analytic)
        self.llnl = {}
        self.gas_binary = {}       # (gas1, gas2) -> k_ij
        self.problems = []
        self.keywords_seen = []
        self._read()

    # ------------------------------------------------------------------ reading
    def _logical_lines(self):
        with open(self.path, encoding="latin-1") as f:
            raw = f.read().split("\n")
        buf = ""
        n0 = 0
        for n, ln in enumerate(raw, 1):
            ln = ln.rstrip("\r")
            h = ln.find("#")
            if h >= 0:
                ln = ln[:h]
            if not buf:
                n0 = n
            if ln.rstrip().endswith("\\"):
                buf += ln.rstrip()[:-1] + " "
                continue
            buf += ln
            for part in buf.split(";"):
                if part.strip():
                    yield n0, part.strip()
            buf = ""

    def _read(self):
        block = None
        cur = None
        llnl_opt = None
        for n, ln in self._logical_lines():
            toks = ln.split()
            kw = toks[0].upper()
            if kw in KEYWORDS and not toks[0].startswith("-"):
                block = kw
                cur = None
                llnl_opt = None
                self.keywords_seen.append(kw)
                continue
            try:
                if block == "SOLUTION_MASTER_SPECIES":
                    self._master(toks, n)
                elif block in ("EXCHANGE_MASTER_SPECIES", "SURFACE_MASTER_SPECIES"):
                    (self.exchange_master if block[0] == "E" else self.surface_master)[toks[0]] = toks[1]
                elif block in ("SOLUTION_SPECIES", "EXCHANGE_SPECIES", "SURFACE_SPECIES"):
                    cur = self._species_line(ln, toks, cur, block, n)
                elif block == "PHASES":
                    cur = self._phase_line(ln, toks, cur, n)
                elif block in ("NAMED_EXPRESSIONS", "NAMED_ANALYTICAL_EXPRESSIONS", "NAMED_ANALYTICAL_EXPRESSION", "NAMED_LOG_K"):
                    cur = self._named_line(ln, toks, cur, n)
                elif block in ("LLNL_AQUEOUS_MODEL_PARAMETERS", "LLNL_AQUEOUS_MODEL"):
                    llnl_opt = self._llnl_line(toks, llnl_opt)
                elif block == "GAS_BINARY_PARAMETERS" and len(toks) >= 3 and to_float(toks[2]) is not None:
                    self.gas_binary[(toks[0], toks[1])] = to_float(toks[2])
            except Exception as e:           # noqa
                self.problems.append("line %d (%s): %s: %r" % (n, block, e, ln[:80]))
                if cur is not None:
                    cur.bad = "parse problem at line %d: %s" % (n, e)

    def _master(self, t, n):
        if len(t) < 3:
            raise ValueError("short master species line")
        el, sp = t[0], t[1]
        alk = to_float(t[2])
        d = dict(master=sp, alk=alk, gfw_formula=None, gfw=None, line=n)
        if len(t) > 3:
            v = to_float(t[3])
            if v is not None and re.fullmatch(NUM, t[3]):
                d["gfw_formula"], d["gfw_number"] = None, v
            else:
                d["gfw_formula"] = t[3]
        if len(t) > 4:
            d["gfw"] = to_float(t[4])
        self.elements[el] = d
        self.master_species.setdefault(sp, []).append(el)

    def _apply_common(self, r, ident, rest, ln):
        if ident == "log_k":
            r.log_k = to_float(rest[0])
            if r.log_k is None:
                raise ValueError("log_k value")
        elif ident == "delta_h":
            v = to_float(rest[0])
            if v is None:
                raise ValueError("delta_h value")
            unit = rest[1].lower() if len(rest) > 1 else "kj"
            # kilocalories unless the unit begins with j / kj ...; the manual: default kJ/mol, units may be kcal, cal, kJ, J (per mole)
            f = 1.0
            u = unit.split("/")[0]
            if u.startswith("kc"):
                f = JOULES_PER_CALORIE
            elif u.startswith("c"):
                f = JOULES_PER_CALORIE / 1000.0
            elif u.startswith("kj"):
                f = 1.0
            elif u.startswith("j"):
                f = 1e-3
            r.delta_h = v * f
        elif ident == "analytical_expression":
            vals = []
            for x in rest:
                v = to_float(x)
                if v is None:
                    break
                vals.append(v)
            r.analytic = (vals + [0.0] * 6)[:6]
        elif ident == "add_logk":
            r.add_logk.append((rest[0], to_float(rest[1]) if len(rest) > 1 and to_float(rest[1]) is not None else 1.0))
        elif ident == "add_constant":
            r.add_constant += to_float(rest[0]) or 0.0
        elif ident == "vm":
            r.vm = [to_float(x) for x in rest if to_float(x) is not None]
        else:
            return False
        return True

    def _species_line(self, ln, toks, cur, block, n):
        table = {"SOLUTION_SPECIES": self.species, "EXCHANGE_SPECIES": self.exchange_species, "SURFACE_SPECIES": self.surface_species}[block]
        ident = match_id(toks[0], SPECIES_IDS)
        if ident is None and "=" in ln:
            r = Rxn()
            r.kind = {"SOLUTION_SPECIES": "aq", "EXCHANGE_SPECIES": "ex", "SURFACE_SPECIES": "surf"}[block]
            r.eq_text, r.line = ln, n
            left, right = parse_equation(ln)
            r.name = right[0][1]
            r.terms = [(-c, s) for c, s in left] + [(c, s) for c, s in right]
            # identity reactions (master species: 'Ca+2 = Ca+2') carry log_k 0
            if r.name in table and not self._is_identity(r):
                self.problems.append("line %d: species %s defined twice; the later definition is kept" % (n, r.name))
            table[r.name] = r
            return r
        if cur is None:
            raise ValueError("identifier before any equation")
        if ident is None:
            raise ValueError("unknown identifier %r" % toks[0])
        rest = toks[1:]
        if self._apply_common(cur, ident, rest, ln):
            return cur
        if ident == "gamma":
            cur.gamma = (to_float(rest[0]), (to_float(rest[1]) or 0.0) if len(rest) > 1 else 0.0)
            cur.gmodel = "wateq"
        elif ident == "llnl_gamma":
            cur.llnl_gamma = to_float(rest[0])
            cur.gmodel = "llnl"
        elif ident == "co2_llnl_gamma":
            cur.co2_llnl_gamma = True
            cur.gmodel = "llnl_co2"
        elif ident == "activity_water":
            cur.gmodel = "activity_water"
        elif ident == "no_check":
            cur.no_check = True
        elif ident == "check":
            cur.no_check = False
        elif ident in ("mole_balance", "mass_balance"):
            cur.mole_balance = rest[0]
        return cur

    @staticmethod
    def _is_identity(r):
        return len(r.terms) == 2 and r.terms[0][1] == r.terms[1][1]

    def _phase_line(self, ln, toks, cur, n):
        ident = match_id(toks[0], PHASE_IDS)
        if ident is None and "=" in ln:
            if cur is None or cur.eq_text:
                raise ValueError("equation without a phase name")
            cur.eq_text = ln
            left, right = parse_equation(ln)
            cur.formula = left[0][1]
            cur.terms = [(-c, s) for c, s in left] + [(c, s) for c, s in right]
            return cur
        if ident is None:
            r = Rxn()
            r.kind, r.name, r.line = "phase", toks[0], n
            self.phases[r.name] = r
            return r
        if cur is None:
            raise ValueError("identifier before any phase")
        rest = toks[1:]
        if self._apply_common(cur, ident, rest, ln):
            return cur
        if ident == "t_c":
            cur.t_c = to_float(rest[0])
        elif ident == "p_c":
            cur.p_c = to_float(rest[0])
        elif ident == "omega":
            cur.omega = to_float(rest[0])
        elif ident == "no_check":
            cur.no_check = True
        return cur

    def _named_line(self, ln, toks, cur, n):
        ident = match_id(toks[0], NAMED_IDS)
        if ident is None:
            r = Rxn()
            r.kind, r.name, r.line = "named", toks[0], n
            self.named[r.name] = r
            return r
        if cur is None:
            raise ValueError("identifier before a name")
        if ident == "ln_alpha1000":
            # isotope fractionation: 1000 ln(alpha) as analytic expression; log K = value / (1000 ln 10)
            vals = [to_float(x) or 0.0 for x in toks[1:]]
            cur.ln_alpha1000 = (vals + [0.0] * 6)[:6]
            return cur
        self._apply_common(cur, ident, toks[1:], ln)
        return cur

    def _llnl_line(self, toks, opt):
        t0 = toks[0].lower()
        if t0.startswith("-"):
            for name in ("temperatures", "dh_a", "dh_b", "bdot", "co2_coefs"):
                if name.startswith(t0[1:]):
                    opt = name
                    self.llnl.setdefault(opt, [])
                    toks = toks[1:]
                    break
        if opt:
            for x in toks:
                v = to_float(x)
                if v is not None:
                    self.llnl[opt].append(v)
        return opt

    # ------------------------------------------------------------------ thermodynamics from the text
    def log_k_T(self, r, tk, _depth=0):
        """log K at tk (K), 1 atm, exactly as the manual defines: analytic expression if present, else van't Hoff from log_k and delta_h;
        named expressions added with their coefficients. returns None when undefined."""
        if r.analytic is not None and any(r.analytic):
            a = r.analytic
            v = a[0] + a[1] * tk + a[2] / tk + a[3] * math.log10(tk) + a[4] / (tk * tk) + a[5] * tk * tk
        elif getattr(r, "ln_alpha1000", None) is not None and any(r.ln_alpha1000):
            a = r.ln_alpha1000
            v = (a[0] + a[1] * tk + a[2] / tk + a[3] * math.log10(tk) + a[4] / (tk * tk) + a[5] * tk * tk) / (1000.0 * math.log(10.0))
        else:
            lk = r.log_k if r.log_k is not None else 0.0
            dh = r.delta_h if r.delta_h is not None else 0.0
            v = lk - dh * (298.15 - tk) / (298.15 * tk * math.log(10.0) * R_KJ)
        v += r.add_constant
        for name, coef in r.add_logk:
            if _depth > 8:
                return None
            nr = self.named.get(name)
            if nr is None:
                cands = [k for k in self.named if k.lower() == name.lower()]
                nr = self.named[cands[0]] if cands else None
            if nr is None:
                return None
            nv = self.log_k_T(nr, tk, _depth + 1)
            if nv is None:
                return None
            v += coef * nv
        return v

    def composition(self, name, table=None, _depth=0):
        """element -> moles per mole of species, as the manual defines the mole balance: the -mole_balance formula if given; for a
        -no_check species the balance implied by its equation; otherwise the formula spelled by the name"""
        table = table or self.species
        memo = self.__dict__.setdefault("_comp_memo", {})
        if name in memo:
            return memo[name]
        rx = table.get(name) or self.species.get(name)
        if rx is not None and rx.mole_balance:
            c = parse_formula(charge_of(rx.mole_balance)[0])
        elif rx is not None and rx.no_check and not self._is_identity(rx) and _depth < 12:
            c = {}
            first = True
            for coef, sp in rx.terms:
                if coef > 0 and sp == name and first:
                    first = False
                    scale = coef
                    continue
                sub = self.composition(sp, table, _depth + 1)
                for k, v in sub.items():
                    c[k] = c.get(k, 0.0) - coef * v
            c = {k: v / scale for k, v in c.items() if abs(v) > 1e-12}
        else:
            c = parse_formula(charge_of(name)[0]) if name != "e-" else {}
        memo[name] = c
        return c

    def aqueous_charge(self, name):
        return charge_of(name)[1]

    def summary(self):
        return dict(elements=len(self.elements), species=len(self.species), phases=len(self.phases), exchange_species=len(self.exchange_species),
                    surface_species=len(self.surface_species), named=len(self.named), problems=len(self.problems))


if __name__ == "__main__":
    import sys
    for p in sys.argv[1:]:
        db = DB(p)
        print(p, db.summary())
        for x in db.problems[:8]:
            print("   ", x)
