"""The shipped examples usable as workloads: which database each needs, and simulation splitting."""
import os
import re
import shutil

# name -> (database relative to repo, approximate opt seconds, include files to copy into cwd)
TABLE = {
    "ex1": ("database/phreeqc.dat", 0.01, ()), "ex2": ("database/phreeqc.dat", 0.01, ()),
    "ex2b": ("database/phreeqc.dat", 0.01, ()), "ex3": ("database/phreeqc.dat", 0.01, ()),
    "ex4": ("database/phreeqc.dat", 0.01, ()), "ex5": ("database/phreeqc.dat", 0.01, ()),
    "ex6": ("database/phreeqc.dat", 0.12, ()), "ex7": ("database/phreeqc.dat", 0.02, ()),
    "ex8": ("database/phreeqc.dat", 0.05, ("Zn1e_4", "Zn1e_7")), "ex9": ("database/phreeqc.dat", 0.02, ()),
    "ex10": ("database/phreeqc.dat", 0.17, ()), "ex11": ("database/phreeqc.dat", 0.94, ()),
    "ex12": ("database/phreeqc.dat", 0.32, ()), "ex12a": ("database/phreeqc.dat", 0.28, ()),
    "ex12b": ("database/phreeqc.dat", 0.26, ()), "ex13a": ("database/phreeqc.dat", 0.08, ()),
    "ex13ac": ("database/phreeqc.dat", 0.16, ()), "ex13b": ("database/phreeqc.dat", 0.06, ()),
    "ex13c": ("database/phreeqc.dat", 0.12, ()), "ex14": ("database/phreeqc.dat", 0.06, ()),
    "ex15": ("phreeqc3-examples/ex15.dat", 2.4, ()), "ex16": ("database/phreeqc.dat", 0.02, ()),
    "ex17": ("database/pitzer.dat", 0.02, ()), "ex17b": ("database/pitzer.dat", 0.04, ()),
    "ex18": ("database/phreeqc.dat", 0.04, ()), "ex19": ("database/phreeqc.dat", 0.01, ()),
    "ex19b": ("database/phreeqc.dat", 0.03, ()), "ex20a": ("database/iso.dat", 0.16, ()),
    "ex22": ("database/phreeqc.dat", 0.09, ()),
}


def path(repo, name):
    return os.path.join(repo, "phreeqc3-examples", name)


def db(repo, name):
    return os.path.join(repo, TABLE[name][0])


def text(repo, name):
    with open(path(repo, name), encoding="latin-1") as f:
        t = f.read()
    # USER_GRAPH blocks are for the charting GUI; they are ignored by the library build. Keep as is.
    return t


def stage_includes(repo, name, cwd):
    for f in TABLE[name][2]:
        shutil.copy(os.path.join(repo, "phreeqc3-examples", f), os.path.join(cwd, f))


END_RE = re.compile(r"^[ \t]*END[ \t]*(#.*)?\r?$", re.I | re.M)


def split_simulations(text_):
    """splits an input at END lines; returns list of pieces, each including its END line.
    Text after the last END (if any, non-blank) forms a last piece."""
    pieces, pos = [], 0
    for m in END_RE.finditer(text_):
        e = m.end()
        if e < len(text_) and text_[e] == "\n":
            e += 1
        pieces.append(text_[pos:e])
        pos = e
    tail = text_[pos:]
    if tail.strip():
        pieces.append(tail)
    return pieces
