"""Structured text mutators for hostile-input workloads (C08, malformed BASIC for C17).  All randomness from the rng passed in."""
import re

EXTREME = ["0", "-1", "1e308", "-1e308", "1e-320", "1e400", "nan", "inf", "-inf", "99999999999999999999", "-0", "1e", "1.2.3", "0x10", "1d5", "+", "--1", "2147483648", "-2147483649", ""]
KEYWORDS = ("advection calculate_values copy database delete dump end equilibrium_phases exchange exchange_master_species exchange_species gas_phase "
            "incremental_reactions inverse_modeling isotopes kinetics knobs llnl_aqueous_model_parameters mix named_expressions phases pitzer print rates reaction "
            "reaction_pressure reaction_temperature run_cells save selected_output sit solid_solutions solution solution_master_species solution_species solution_spread "
            "surface surface_master_species surface_species title transport use user_print user_punch user_graph solution_raw exchange_raw surface_raw kinetics_raw "
            "gas_phase_raw equilibrium_phases_raw solid_solutions_raw solution_modify equilibrium_phases_modify kinetics_modify gas_phase_modify surface_modify exchange_modify "
            "solution_mix mix_raw reaction_raw reaction_modify reaction_temperature_raw reaction_pressure_raw isotope_alphas isotope_ratios calculate_values mean_gammas "
            "gas_binary_parameters rate_parameters_pk rate_parameters_svd rate_parameters_hermanska include$ database").upper().split()
NUM_RE = re.compile(r"(?<![A-Za-z_(\[])[-+]?(?:\d+\.?\d*|\.\d+)(?:[eE][-+]?\d+)?(?![A-Za-z_])")
JUNK = [b"\x00", b"\xff\xfe", b"\r", b"\t\t\t", b";", b"#", b"\\", b"\"", b"'", b"(", b")", b"$", b"%", b"\x1b[0m", b"\x80\x81"]


def harvest_options(texts):
    opts = set()
    for t in texts:
        opts.update(re.findall(r"(?m)^\s*(-[A-Za-z_]+)", t))
    return sorted(opts)


def mutate(rng, text, options, n=None):
    """returns (mutated text as str (latin-1 safe), [names of the mutations applied])"""
    n = n or rng.choice([1, 1, 1, 2, 3, 5])
    names = []
    for _ in range(n):
        lines = text.split("\n")
        op = rng.choice(["num_extreme", "num_extreme", "tok_del", "tok_dup", "tok_swap", "tok_keyword", "tok_option", "line_del", "line_dup", "line_swap", "truncate",
                         "junk", "long_token", "long_comment", "del_end", "dash", "quote", "keyword_swap", "case", "number_to_word", "indent_cr", "repeat_block", "splice"])
        names.append(op)
        if not lines:
            break
        i = rng.randrange(len(lines))
        toks = lines[i].split(" ")
        if op == "num_extreme":
            ms = list(NUM_RE.finditer(text))
            if ms:
                m = rng.choice(ms)
                text = text[:m.start()] + rng.choice(EXTREME) + text[m.end():]
            continue
        if op == "number_to_word":
            ms = list(NUM_RE.finditer(text))
            if ms:
                m = rng.choice(ms)
                text = text[:m.start()] + rng.choice(["abc", "Na", "true", "-x", "1,5", "1/0"]) + text[m.end():]
            continue
        if op == "tok_del" and toks:
            del toks[rng.randrange(len(toks))]
            lines[i] = " ".join(toks)
        elif op == "tok_dup" and toks:
            j = rng.randrange(len(toks))
            toks.insert(j, toks[j])
            lines[i] = " ".join(toks)
        elif op == "tok_swap" and len(toks) > 1:
            a, b = rng.randrange(len(toks)), rng.randrange(len(toks))
            toks[a], toks[b] = toks[b], toks[a]
            lines[i] = " ".join(toks)
        elif op == "tok_keyword" and toks:
            toks[rng.randrange(len(toks))] = rng.choice(KEYWORDS)
            lines[i] = " ".join(toks)
        elif op == "tok_option" and toks and options:
            toks[rng.randrange(len(toks))] = rng.choice(options)
            lines[i] = " ".join(toks)
        elif op == "line_del":
            del lines[i]
        elif op == "line_dup":
            lines.insert(i, lines[i])
        elif op == "line_swap" and len(lines) > 1:
            j = rng.randrange(len(lines))
            lines[i], lines[j] = lines[j], lines[i]
        elif op == "truncate":
            t = "\n".join(lines)
            text = t[:rng.randrange(len(t) + 1)]
            continue
        elif op == "junk":
            t = "\n".join(lines)
            p = rng.randrange(len(t) + 1)
            text = t[:p] + rng.choice(JUNK).decode("latin-1") * rng.choice([1, 1, 3]) + t[p:]
            continue
        elif op == "long_token":
            toks.insert(rng.randrange(len(toks) + 1), rng.choice(["A", "9", "-", "x("]) * rng.choice([300, 2000, 9000]))
            lines[i] = " ".join(toks)
        elif op == "long_comment":
            # a trailing comment that makes the raw line longer than the reader's initial buffer while the data part stays short (or a continuation with a long tail)
            tail = rng.choice(["#", ";#", " \\"]) + " " + rng.choice(["x", "comment ", "#"]) * rng.choice([1400, 4096, 5000, 20000])
            lines[i] = lines[i] + " " + tail
        elif op == "del_end":
            lines = [l for l in lines if l.strip().upper() != "END"] if rng.random() < 0.5 else lines
            if lines and rng.random() < 0.5:
                lines = lines[:-1]
        elif op == "dash" and toks:
            j = rng.randrange(len(toks))
            toks[j] = "-" + toks[j]
            lines[i] = " ".join(toks)
        elif op == "quote":
            lines[i] = lines[i].replace('"', "", 1) if '"' in lines[i] else lines[i] + ' "'
        elif op == "keyword_swap":
            ks = [k for k, l in enumerate(lines) if l.strip().split(" ")[0].upper() in KEYWORDS]
            if ks:
                k = rng.choice(ks)
                rest = lines[k].strip().split(" ")[1:]
                lines[k] = " ".join([rng.choice(KEYWORDS)] + rest)
        elif op == "case":
            lines[i] = lines[i].swapcase()
        elif op == "indent_cr":
            lines[i] = "\t" + lines[i] + "\r"
        elif op == "repeat_block":
            j = min(len(lines), i + rng.randint(1, 8))
            lines[i:i] = lines[i:j] * rng.choice([1, 2, 20])
        elif op == "splice":
            j = rng.randrange(len(lines))
            a, b = min(i, j), max(i, j)
            lines = lines[:a] + lines[b:]
        text = "\n".join(lines)
    return text, names


def random_block(rng, options, names):
    """a grammar-shaped data block: KEYWORD [number | range | description], then option / value lines that are mostly wrong"""
    kw = rng.choice(KEYWORDS)
    head = kw + rng.choice(["", " 1", " 1-3", " -5", " 3-1", " 99999999999", " 1 some description", " x"])
    lines = [head]
    for _ in range(rng.randint(0, 8)):
        w = rng.random()
        if w < 0.45 and options:
            l = " " + rng.choice(options) + " " + " ".join(rng.choice(EXTREME + names + ["true", "false", "1", "0.5", "25"]) for _ in range(rng.randint(0, 4)))
        elif w < 0.8:
            l = " " + " ".join(rng.choice(names + EXTREME + ["1", "0.001", "10", "mmol", "charge", "as", "gfw", "Calcite", "pH", "pe"]) for _ in range(rng.randint(1, 5)))
        elif w < 0.9:
            l = " %d %s" % (rng.randint(-5, 300) * 10, rng.choice(["PUNCH", "PRINT", "SAVE", "GOTO", "IF", "FOR i = 1 TO", "NEXT", "x =", "DIM a(", "GOSUB", "RETURN", "READ", "DATA", "WEND", "END", "REM"])
                            + " " + rng.choice(names + EXTREME + ["TOT(\"Na\")", "MOL(", "(1+", "\"abc", "1/0", "LOG10(-1)", "a$ + 1", "SQRT(-4)", "EXP(1e4)"]))
        else:
            l = rng.choice(["-start", "-end", " -start", " -end", "-file /nonexistent_dir/x.sel", " -file .", "INCLUDE$ /nonexistent/file", "INCLUDE$ ."])
        lines.append(l)
    return "\n".join(lines) + "\n"
