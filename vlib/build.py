"""Builds the library under test (from the *current working tree* of the repository) plus the
harness programs, one build per sanitizer flavour, with an object cache.

Cache layout (git-ignored):  /verif/.build/<flavour>-<tag>/  where tag = hash(repo path).
Per translation unit we keep  <name>.o  <name>.d (g++ -MMD)  <name>.key  with
key = sha256(flags + bytes of every file named in .d).  A unit whose key still matches is reused,
so after a one-file edit only that file is recompiled; a header edit recompiles its dependants.
The whole flavour directory is protected by an flock so concurrent checks do not collide.
"""
import fcntl
import glob
import hashlib
import os
import shutil
import subprocess
import sys
import time
from concurrent.futures import ThreadPoolExecutor

VERIF = os.path.dirname(os.path.dirname(os.path.abspath(__file__)))
GUARD = "IPHREEQC_VERIF"


def repo_root():
    return os.path.abspath(os.environ.get("VERIF_REPO", "/repo"))


FLAVOURS = {
    "opt": dict(cxx="g++", cc="gcc", flags=["-O2", "-g1"], ld=[]),
    "asan": dict(cxx="g++", cc="gcc",
                 flags=["-O1", "-g", "-fno-omit-frame-pointer", "-fsanitize=address,undefined",
                        "-fno-sanitize-recover=all"],
                 ld=["-fsanitize=address,undefined"]),
    "tsan": dict(cxx="g++", cc="gcc", flags=["-O1", "-g", "-fsanitize=thread"],
                 ld=["-fsanitize=thread"]),
    "fuzz": dict(cxx="clang++-14", cc="clang-14",
                 flags=["-O1", "-g", "-fno-omit-frame-pointer",
                        "-fsanitize=fuzzer-no-link,address,undefined",
                        "-fno-sanitize-recover=all", "-fno-sanitize=object-size"],
                 ld=["-fsanitize=fuzzer,address,undefined"]),
}
DEFINES = ["-DSWIG_SHARED_OBJ", "-DUSE_PHRQ_ALLOC", "-DNDEBUG", "-D" + GUARD]
EXCLUDE = ("fwrap", "pp_sys", "class_main", "ChartHandler", "ChartObject", "CurveObject")


class BuildError(Exception):
    pass


def sources(repo):
    s = os.path.join(repo, "src")
    pats = ["*.cpp", "Var.c", "phreeqcpp/*.cpp", "phreeqcpp/*.cxx", "phreeqcpp/common/*.cxx",
            "phreeqcpp/common/*.cpp", "phreeqcpp/PhreeqcKeywords/*.cpp"]
    out = []
    for p in pats:
        out += sorted(glob.glob(os.path.join(s, p)))
    return [f for f in out if not any(x in os.path.basename(f) for x in EXCLUDE)]


def incflags(repo):
    s = os.path.join(repo, "src")
    return ["-I" + s, "-I" + s + "/phreeqcpp", "-I" + s + "/phreeqcpp/common",
            "-I" + s + "/phreeqcpp/PhreeqcKeywords"]


_filehash = {}


def _hash_file(path):
    try:
        st = os.stat(path)
    except OSError:
        return "missing"
    k = (path, st.st_mtime_ns, st.st_size)
    h = _filehash.get(k)
    if h is None:
        with open(path, "rb") as f:
            h = hashlib.sha256(f.read()).hexdigest()
        _filehash[k] = h
    return h


def _deps(dfile):
    try:
        txt = open(dfile).read()
    except OSError:
        return None
    txt = txt.replace("\\\n", " ")
    if ":" not in txt:
        return None
    return [t for t in txt.split(":", 1)[1].split() if t]


def _key(cmdflags, deps):
    h = hashlib.sha256()
    h.update(" ".join(cmdflags).encode())
    for d in deps:
        h.update(d.encode())
        h.update(_hash_file(d).encode())
    return h.hexdigest()


def _compile_one(src, objdir, compiler, flags, name=None):
    base = name or os.path.basename(src)
    obj = os.path.join(objdir, base + ".o")
    dfile = os.path.join(objdir, base + ".d")
    kfile = os.path.join(objdir, base + ".key")
    cmdflags = [compiler] + flags
    deps = _deps(dfile)
    if deps and os.path.exists(obj):
        try:
            if open(kfile).read() == _key(cmdflags, deps):
                return obj, False
        except OSError:
            pass
    cmd = cmdflags + ["-MMD", "-MF", dfile, "-c", src, "-o", obj]
    r = subprocess.run(cmd, capture_output=True, text=True)
    if r.returncode != 0:
        raise BuildError("compile failed: %s\n%s" % (" ".join(cmd), r.stderr[-4000:]))
    deps = _deps(dfile) or [src]
    with open(kfile, "w") as f:
        f.write(_key(cmdflags, deps))
    return obj, True


def ensure(flavour, progs=("vdrive",), verbose=True):
    """Returns dict(dir=..., lib=..., bin={prog: path}). Raises BuildError."""
    repo = repo_root()
    fl = FLAVOURS[flavour]
    tag = hashlib.sha256(repo.encode()).hexdigest()[:8]
    bdir = os.path.join(VERIF, ".build", "%s-%s" % (flavour, tag))
    os.makedirs(bdir, exist_ok=True)
    lock = open(os.path.join(bdir, ".lock"), "w")
    fcntl.flock(lock, fcntl.LOCK_EX)
    try:
        t0 = time.time()
        inc = incflags(repo)
        srcs = sources(repo)
        if len(srcs) < 60:
            raise BuildError("source set looks wrong (%d files) in %s" % (len(srcs), repo))
        jobs = []
        for s in srcs:
            if s.endswith(".c"):
                jobs.append((s, fl["cc"], fl["flags"] + DEFINES + inc))
            else:
                jobs.append((s, fl["cxx"], ["-std=gnu++14"] + fl["flags"] + DEFINES + inc))
        objs = []
        ncomp = 0
        with ThreadPoolExecutor(max_workers=int(os.environ.get("VERIF_JOBS", "16"))) as ex:
            for obj, did in ex.map(lambda j: _compile_one(j[0], bdir, j[1], j[2]), jobs):
                objs.append(obj)
                ncomp += did
        lib = os.path.join(bdir, "libiphreeqc.a")
        want = set(objs)
        stale = [o for o in glob.glob(os.path.join(bdir, "*.o"))
                 if o not in want and not os.path.basename(o).startswith("h_")]
        for o in stale:
            os.unlink(o)
        # identity of the library = the keys of all its units; every executable remembers the identity it was linked against, so a program that was
        # not asked for while the library changed (vthreads, vfuzz) is relinked the next time it is (it used to keep running the old code)
        hl = hashlib.sha256()
        for o in sorted(objs):
            try:
                hl.update(open(o[:-2] + ".key").read().encode())
            except OSError:
                hl.update(b"?")
        libid = hl.hexdigest()
        libid_file = lib + ".id"
        try:
            have_id = open(libid_file).read()
        except OSError:
            have_id = None
        if ncomp or stale or not os.path.exists(lib) or have_id != libid:
            if os.path.exists(lib):
                os.unlink(lib)
            r = subprocess.run(["ar", "rcs", lib] + sorted(objs), capture_output=True, text=True)
            if r.returncode:
                raise BuildError("ar failed: " + r.stderr)
            with open(libid_file, "w") as f:
                f.write(libid)
        bins = {}
        hdir = os.path.join(VERIF, "harness")
        for p in progs:
            src = os.path.join(hdir, p + ".cpp")
            hobj, did = _compile_one(src, bdir, fl["cxx"],
                                     ["-std=gnu++14"] + fl["flags"] + DEFINES + inc + ["-I" + hdir],
                                     name="h_" + p)
            exe = os.path.join(bdir, p)
            try:
                linked_against = open(exe + ".libid").read()
            except OSError:
                linked_against = None
            if did or ncomp or stale or not os.path.exists(exe) or linked_against != libid:
                wraps = ["-Wl,--wrap=exit", "-Wl,--wrap=_exit", "-Wl,--wrap=abort"] if p != "vfuzz" else []
                cmd = [fl["cxx"]] + fl["ld"] + wraps + ["-o", exe, hobj, lib, "-lpthread", "-ldl", "-rdynamic"]
                r = subprocess.run(cmd, capture_output=True, text=True)
                if r.returncode:
                    raise BuildError("link failed: %s\n%s" % (" ".join(cmd), r.stderr[-4000:]))
                with open(exe + ".libid", "w") as f:
                    f.write(libid)
            bins[p] = exe
        if verbose:
            sys.stderr.write("[build] %s: %d/%d units compiled, %.1fs (%s)\n"
                             % (flavour, ncomp, len(srcs), time.time() - t0, repo))
        return dict(dir=bdir, lib=lib, bin=bins, compiled=ncomp, repo=repo)
    finally:
        fcntl.flock(lock, fcntl.LOCK_UN)
        lock.close()


def clean(all_=False):
    b = os.path.join(VERIF, ".build")
    if all_:
        shutil.rmtree(b, ignore_errors=True)
        return
    keep = hashlib.sha256(b"/repo").hexdigest()[:8]
    for d in glob.glob(os.path.join(b, "*")):
        if not d.endswith(keep):
            shutil.rmtree(d, ignore_errors=True)


if __name__ == "__main__":
    fl = sys.argv[1:] or ["opt", "asan", "tsan"]
    for f in fl:
        if f == "clean":
            clean()
            continue
        try:
            progs = ("vdrive", "vthreads") if f != "fuzz" else ("vfuzz",)
            progs = tuple(p for p in progs if os.path.exists(os.path.join(VERIF, "harness", p + ".cpp")))
            ensure(f, progs)
        except BuildError as e:
            sys.stderr.write(str(e) + "\n")
            sys.exit(2)
