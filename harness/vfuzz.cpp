// vfuzz - libFuzzer target for C08 (thorough tier) and stand-alone replayer of its artifacts (run with a file argument).
// Every unit is self-contained: fresh instance, LoadDatabase, RunString(unit), relation between the return value and the
// recorded error messages, LoadDatabase again (must succeed), fixed probe, digest compared with the digest a fresh instance
// gave at start-up.  A violation prints "VFUZZ-VIOLATION <key> <detail>" and aborts so that libFuzzer keeps the unit.
#include <cstdio>
#include <cstdlib>
#include <cstring>
#include <cstdint>
#include <string>
#include <exception>
#include <unistd.h>
#include "IPhreeqc.hpp"

static const char *PROBE =
	"SOLUTION 1\n temp 25\n pH 7.5\n Na 10\n Cl 10\n Ca 2\n C(4) 3\n K 1\n S(6) 1\nSELECTED_OUTPUT\n -totals Ca Na\n -molalities Na+ Cl-\n -saturation_indices Calcite Gypsum Halite\n"
	"USER_PUNCH\n -headings g1 e1 mu\n10 PUNCH GET(1), EXISTS(1), MU\nEND\n"
	"USE solution 1\nREACTION 1\n NaCl 1\n 1 mmol in 2 steps\nEQUILIBRIUM_PHASES 1\n Calcite 0 1\n Gypsum 0 0\nSAVE solution 2\nEND\n"
	"SOLUTION 0\n K 2\n Cl 2\nSOLUTION 1-3\n Na 1\n Cl 1\nTRANSPORT\n -cells 3\n -shifts 2\n -time_step 1000\n -dispersivities 0.1\n -diffusion_coefficient 1e-9\n -punch_frequency 1\nEND\n"
	"USE solution 1\nUSER_PRINT\n10 PRINT \"memory\", GET(1), GET(2,3), EXISTS(1), TOTAL_TIME, SIM_NO\nEND\nDUMP\n -all\nEND\n";

static uint64_t fnv(uint64_t h, const std::string &s) { for (size_t i = 0; i < s.size(); i++) { h ^= (unsigned char)s[i]; h *= 1099511628211ULL; } return h; }

static void violation(const char *key, const std::string &detail) {
	fprintf(stderr, "VFUZZ-VIOLATION %s %s\n", key, detail.substr(0, 600).c_str());
	fflush(stderr);
	abort();
}

static uint64_t probe(IPhreeqc &p, std::string &what) {
	p.SetSelectedOutputStringOn(true);
	p.SetDumpStringOn(true);
	int r = p.RunString(PROBE);
	uint64_t h = 1469598103934665603ULL;
	h = fnv(h, std::to_string(r));
	h = fnv(h, p.GetSelectedOutputString());
	h = fnv(h, p.GetDumpString());
	h = fnv(h, p.GetErrorString());
	h = fnv(h, p.GetWarningString());
	what = std::string("ret=") + std::to_string(r) + " err=" + p.GetErrorString();
	return h;
}

static const char *db() { const char *d = getenv("VFUZZ_DB"); return d ? d : "/repo/database/phreeqc.dat"; }

extern "C" int LLVMFuzzerTestOneInput(const uint8_t *data, size_t size) {
	static uint64_t ref = 0; static bool have_ref = false;
	if (!have_ref) {
		IPhreeqc f; std::string w;
		if (f.LoadDatabase(db()) != 0) { fprintf(stderr, "vfuzz: cannot load %s\n", db()); _exit(3); }
		ref = probe(f, w); have_ref = true;
	}
	std::string unit((const char *)data, size);
	try {
		IPhreeqc p;
		if (p.LoadDatabase(db()) != 0) violation("first-load-fails", p.GetErrorString());
		int r = p.RunString(unit.c_str());
		std::string et = p.GetErrorString();
		bool has = et.find_first_not_of(" \t\r\n") != std::string::npos;
		if ((r != 0) != has) violation(r ? "return-vs-errors/nonzero-without-ERROR" : "return-vs-errors/zero-with-ERROR", "RunString returned " + std::to_string(r) + " errors: " + et);
		int l = p.LoadDatabase(db());
		if (l != 0) violation("reload-fails", std::string("LoadDatabase after the unit returned ") + std::to_string(l) + ": " + p.GetErrorString());
		std::string w;
		uint64_t h = probe(p, w);
		if (h != ref) violation("poisoned/probe", "probe after unit + reload differs from a fresh instance: " + w);
	} catch (const std::exception &e) {
		violation("exception-escapes/RunString", e.what());
	} catch (...) {
		violation("exception-escapes/RunString", "unknown");
	}
	return 0;
}
