// vcore.h - scenario interpreter and event recorder at the client boundary of IPhreeqc.
// Used by vdrive (one scenario per process) and vthreads (one scenario per thread).
// Records are JSON lines.  Strings are emitted byte-exact: every byte outside printable ASCII
// is written as \u00XX, so the Python side recovers the bytes with latin-1.
#ifndef VCORE_H
#define VCORE_H
#include <cstdio>
#include <cstdlib>
#include <cstring>
#include <cstdint>
#include <string>
#include <vector>
#include <map>
#include <sstream>
#include <fstream>
#include <iostream>
#include <functional>
#include <exception>
#include <chrono>
#include <sys/stat.h>
#include <unistd.h>
#include <dirent.h>

#include "IPhreeqc.hpp"
#include "IPhreeqc.h"
#include "IPhreeqc_interface_F.h"
#include "Phreeqc.h"
#include "StorageBin.h"
#include "Serializer.h"
#include "Dictionary.h"
#include "thread.h"
#include <algorithm>

extern "C" { extern void (*iphreeqc_verif_cl1_hook)(int stage, int k, int l, int m, int n, int q_dim, const double *q, const double *x, const double *res, int kode, double toler, double error, int check); }

namespace vc {

// recorder for the L1 problems handed to cl1 (hook in cl1.cpp): binary records, little endian
//  'P' k l m n check (int32 x5) toler (f64) matrix (k+l+m rows x n+1, f64) x[n] res[k+l+m]     - before the call
//  'R' kode (int32) error (f64) x[n] res[k+l+m]                                                   - after the call
static FILE *cl1_file = 0;
static int cl1_n = 0, cl1_klm = 0;
static long cl1_budget = 0;
static void cl1_hook(int stage, int k, int l, int m, int n, int q_dim, const double *q, const double *x, const double *res, int kode, double toler, double error, int check) {
	if (!cl1_file) return;
	if (stage == 0) {
		if (cl1_budget <= 0) { cl1_n = -1; return; }
		cl1_budget--;
		int32_t h[5] = { k, l, m, n, check };
		fputc('P', cl1_file); fwrite(h, sizeof h, 1, cl1_file); fwrite(&toler, 8, 1, cl1_file);
		for (int i = 0; i < k + l + m; i++) fwrite(q + (size_t)i * q_dim, 8, (size_t)n + 1, cl1_file);
		fwrite(x, 8, n, cl1_file); fwrite(res, 8, (size_t)k + l + m, cl1_file);
		cl1_n = n; cl1_klm = k + l + m;
	} else {
		if (cl1_n < 0) return;
		int32_t kd = kode;
		fputc('R', cl1_file); fwrite(&kd, 4, 1, cl1_file); fwrite(&error, 8, 1, cl1_file);
		fwrite(x, 8, cl1_n, cl1_file); fwrite(res, 8, cl1_klm, cl1_file);
	}
}

static inline double now_s() {
	using namespace std::chrono;
	return duration<double>(steady_clock::now().time_since_epoch()).count();
}

static inline void jesc(std::string &o, const char *s, size_t n) {
	static const char *hex = "0123456789abcdef";
	o.push_back('"');
	for (size_t i = 0; i < n; i++) {
		unsigned char c = (unsigned char)s[i];
		if (c == '"' || c == '\\') { o.push_back('\\'); o.push_back((char)c); }
		else if (c >= 0x20 && c < 0x7f) o.push_back((char)c);
		else if (c == '\n') { o += "\\n"; }
		else if (c == '\t') { o += "\\t"; }
		else { o += "\\u00"; o.push_back(hex[c >> 4]); o.push_back(hex[c & 15]); }
	}
	o.push_back('"');
}
static inline std::string jstr(const std::string &s) { std::string o; jesc(o, s.data(), s.size()); return o; }
static inline std::string jstr(const char *s) { if (!s) return "null"; std::string o; jesc(o, s, strlen(s)); return o; }
static inline std::string jnum(long v) { return std::to_string(v); }
static inline std::string jdbl(double d) { char b[64]; snprintf(b, sizeof b, "\"%.17g\"", d); return b; }

static inline uint64_t fnv(const std::string &s) {
	uint64_t h = 1469598103934665603ULL;
	for (size_t i = 0; i < s.size(); i++) { h ^= (unsigned char)s[i]; h *= 1099511628211ULL; }
	return h;
}
static inline std::string hex64(uint64_t h) { char b[32]; snprintf(b, sizeof b, "\"%016llx\"", (unsigned long long)h); return b; }

// remove the elapsed-time banner and its two underline rows
static inline std::string mask_banner(const std::string &s) {
	std::vector<std::string> v; size_t p = 0;
	while (p <= s.size()) { size_t q = s.find('\n', p); if (q == std::string::npos) { if (p < s.size()) v.push_back(s.substr(p)); break; } v.push_back(s.substr(p, q - p + 1)); p = q + 1; }
	std::string o;
	for (size_t i = 0; i < v.size(); i++) {
		bool drop = v[i].find("End of Run after") != std::string::npos;
		if (i + 1 < v.size() && v[i + 1].find("End of Run after") != std::string::npos) drop = true;
		if (i > 0 && v[i - 1].find("End of Run after") != std::string::npos) drop = true;
		if (!drop) o += v[i];
	}
	return o;
}

static inline bool slurp(const std::string &p, std::string &out) {
	std::ifstream f(p.c_str(), std::ios::binary); if (!f) return false;
	std::stringstream ss; ss << f.rdbuf(); out = ss.str(); return true;
}

// exposes protected parts of IPhreeqc that C10 needs (public Phreeqc members only)
class XIPhreeqc : public IPhreeqc {
public:
	Phreeqc *P() { return this->PhreeqcPtr; }
	// registry look-up under the library's own lock (same thing IPhreeqcLib::GetInstance does)
	static IPhreeqc *Find(int id) {
		IPhreeqc *r = 0;
		mutex_lock(&map_lock);
		std::map<size_t, IPhreeqc*>::iterator it = IPhreeqc::Instances.find(size_t(id));
		if (it != IPhreeqc::Instances.end()) r = it->second;
		mutex_unlock(&map_lock);
		return r;
	}
};

struct Inst {
	IPhreeqc *obj; int id; char api; bool owned; bool live;
	Inst() : obj(0), id(-1), api('p'), owned(false), live(false) {}
};

struct Arg { bool null; std::string s; Arg() : null(false) {} const char *c() const { return null ? 0 : s.c_str(); } };

class Interp {
public:
	std::map<std::string, Inst> inst;
	std::map<std::string, std::string> texts;
	FILE *out; long seq; std::string tag; bool want_time;
	std::function<void(const std::string&)> sink;   // optional: receives each record instead of FILE
	Interp(FILE *o) : out(o), seq(0), want_time(false) {}

	void emit(const std::string &rec) {
		if (sink) { sink(rec); return; }
		fwrite(rec.data(), 1, rec.size(), out); fputc('\n', out); fflush(out);
	}
	std::string head(const char *ev, const std::string &op, const std::string &name) {
		std::string r = "{\"seq\":" + jnum(seq++) + ",\"ev\":\"" + ev + "\",\"op\":" + jstr(op) + ",\"inst\":" + jstr(name);
		if (!tag.empty()) r += ",\"tag\":" + jstr(tag);
		if (want_time) { char b[48]; snprintf(b, sizeof b, ",\"t\":%.6f", now_s()); r += b; }
		return r;
	}

	Arg arg(const std::string &tok) {
		Arg a;
		if (tok == "%NULL") { a.null = true; return a; }
		if (tok == "%EMPTY") { return a; }
		if (!tok.empty() && tok[0] == '@') { std::map<std::string, std::string>::iterator it = texts.find(tok.substr(1)); if (it != texts.end()) a.s = it->second; return a; }
		a.s = tok; return a;
	}

	// ---------------------------------------------------------------- generic API call
	// returns JSON fragment  "r":...  (possibly more keys)
	std::string fstr_call(std::function<void(char*, int*)> f) {
		// Fortran-style out-string: blank padded buffer, length reported through *len
		int cap = 256;
		for (int attempt = 0; attempt < 2; attempt++) {
			std::vector<char> buf(cap + 8, '#'); int len = cap;
			f(&buf[0], &len);
			if (len > cap && attempt == 0) { cap = len + 16; continue; }
			int shown = len < cap ? len : cap;
			bool pad_ok = true;
			for (int i = shown; i < cap; i++) if (buf[i] != ' ') pad_ok = false;
			bool guard_ok = true;
			for (int i = cap; i < cap + 8; i++) if (buf[i] != '#') guard_ok = false;
			// the same getter into buffers that fit exactly / are too short: the first cap characters, the full length reported, nothing written past cap
			bool short_ok = true;
			std::string wide(&buf[0], shown);
			if (len == shown && len >= 1) {
				int caps[3] = { len, len - 1, 1 };
				for (int ci = 0; ci < 3; ci++) {
					int c2 = caps[ci];
					if (c2 < 1) continue;
					std::vector<char> b2(c2 + 8, '#'); int l2 = c2;
					f(&b2[0], &l2);
					if (l2 != len || std::string(&b2[0], c2) != wide.substr(0, c2)) short_ok = false;
					for (int i = c2; i < c2 + 8; i++) if (b2[i] != '#') short_ok = false;
				}
			}
			std::string r = "\"r\":" + jstr(wide) + ",\"flen\":" + jnum(len) + ",\"pad_ok\":" + (pad_ok ? "1" : "0") + ",\"guard_ok\":" + (guard_ok ? "1" : "0") + ",\"short_ok\":" + (short_ok ? "1" : "0");
			return r;
		}
		return "\"r\":null";
	}

	std::string var_json(VRESULT vr, VAR &v) {
		std::string r = "\"r\":" + jnum((long)vr) + ",\"vt\":" + jnum((long)v.type) + ",\"v\":";
		switch (v.type) {
		case TT_EMPTY: r += "null"; break;
		case TT_ERROR: r += jnum((long)v.vresult); break;
		case TT_LONG: r += "\"" + std::to_string(v.lVal) + "\""; break;
		case TT_DOUBLE: r += jdbl(v.dVal); break;
		case TT_STRING: r += jstr(v.sVal); break;
		default: r += "\"?\"";
		}
		return r;
	}

	std::string call(Inst &I, char api, const std::string &fn, const std::vector<std::string> &a) {
		IPhreeqc *o = I.obj; int id = I.id; int *pid = &id;
		long n0 = a.size() > 0 ? atol(a[0].c_str()) : 0; long n1 = a.size() > 1 ? atol(a[1].c_str()) : 0;
		Arg s0 = a.size() > 0 ? arg(a[0]) : Arg();
		if (api == 'p' && !o) return "\"r\":null,\"skip\":\"no object\"";
#define RINT(expr) return "\"r\":" + jnum((long)(expr))
#define RSTR(expr) return "\"r\":" + jstr(expr)
#define RVOID(expr) do { expr; return "\"r\":null"; } while (0)
		// --- int getters without args
#define GETI(Name) if (fn == #Name) { if (api == 'p') RINT(o->Name()); if (api == 'c') RINT(::Name(id)); RINT(Name##F(pid)); }
#define GETB(Name) if (fn == #Name) { if (api == 'p') RINT(o->Name() ? 1 : 0); if (api == 'c') RINT(::Name(id)); RINT(Name##F(pid)); }
		GETI(GetComponentCount) GETI(GetCurrentSelectedOutputUserNumber)
		GETI(GetDumpStringLineCount) GETI(GetErrorStringLineCount) GETI(GetLogStringLineCount) GETI(GetOutputStringLineCount)
		GETI(GetSelectedOutputStringLineCount) GETI(GetWarningStringLineCount)
		GETI(GetSelectedOutputColumnCount) GETI(GetSelectedOutputCount) GETI(GetSelectedOutputRowCount)
		GETB(GetDumpFileOn) GETB(GetDumpStringOn) GETB(GetErrorFileOn) GETB(GetErrorOn) GETB(GetErrorStringOn)
		GETB(GetLogFileOn) GETB(GetLogStringOn) GETB(GetOutputFileOn) GETB(GetOutputStringOn)
		GETB(GetSelectedOutputFileOn) GETB(GetSelectedOutputStringOn)
		// --- file names
#define GETFN(Name) if (fn == #Name) { if (api == 'p') RSTR(o->Name()); if (api == 'c') RSTR(::Name(id)); return fstr_call([&](char *b, int *l) { Name##F(pid, b, l); }); }
		GETFN(GetDumpFileName) GETFN(GetErrorFileName) GETFN(GetLogFileName) GETFN(GetOutputFileName) GETFN(GetSelectedOutputFileName)
		// --- whole strings (no Fortran form)
#define GETS(Name) if (fn == #Name) { if (api == 'p') RSTR(o->Name()); if (api == 'c') RSTR(::Name(id)); return "\"r\":null,\"skip\":\"no F form\""; }
		GETS(GetDumpString) GETS(GetErrorString) GETS(GetLogString) GETS(GetOutputString) GETS(GetSelectedOutputString) GETS(GetWarningString)
		// --- indexed strings (harness index is 0-based; Fortran binding gets n+1)
#define GETL(Name) if (fn == #Name) { if (api == 'p') RSTR(o->Name((int)n0)); if (api == 'c') RSTR(::Name(id, (int)n0)); int n = (int)n0 + 1; return fstr_call([&](char *b, int *l) { Name##F(pid, &n, b, l); }); }
		GETL(GetComponent) GETL(GetDumpStringLine) GETL(GetErrorStringLine) GETL(GetLogStringLine) GETL(GetOutputStringLine)
		GETL(GetSelectedOutputStringLine) GETL(GetWarningStringLine)
		if (fn == "GetNthSelectedOutputUserNumber") { if (api == 'p') RINT(o->GetNthSelectedOutputUserNumber((int)n0)); if (api == 'c') RINT(::GetNthSelectedOutputUserNumber(id, (int)n0)); int n = (int)n0 + 1; RINT(GetNthSelectedOutputUserNumberF(pid, &n)); }
		// --- setters (on/off)
#define SETB(Name) if (fn == #Name) { if (api == 'p') RVOID(o->Name(n0 != 0)); if (api == 'c') RINT(::Name(id, (int)n0)); int v = (int)n0; RINT(Name##F(pid, &v)); }
		SETB(SetDumpFileOn) SETB(SetDumpStringOn) SETB(SetErrorFileOn) SETB(SetErrorOn) SETB(SetErrorStringOn) SETB(SetLogFileOn)
		SETB(SetLogStringOn) SETB(SetOutputFileOn) SETB(SetOutputStringOn) SETB(SetSelectedOutputFileOn) SETB(SetSelectedOutputStringOn)
		if (fn == "SetCurrentSelectedOutputUserNumber") { if (api == 'p') RINT(o->SetCurrentSelectedOutputUserNumber((int)n0)); if (api == 'c') RINT(::SetCurrentSelectedOutputUserNumber(id, (int)n0)); int v = (int)n0; RINT(SetCurrentSelectedOutputUserNumberF(pid, &v)); }
		// --- setters (file names)
#define SETFN(Name) if (fn == #Name) { if (api == 'p') RVOID(o->Name(s0.c())); if (api == 'c') RINT(::Name(id, s0.c())); RINT(Name##F(pid, (char*)s0.c())); }
		SETFN(SetDumpFileName) SETFN(SetErrorFileName) SETFN(SetLogFileName) SETFN(SetOutputFileName) SETFN(SetSelectedOutputFileName)
		// --- text in
#define TXTI(Name) if (fn == #Name) { if (api == 'p') RINT(o->Name(s0.c())); if (api == 'c') RINT(::Name(id, s0.c())); RINT(Name##F(pid, (char*)s0.c())); }
		TXTI(AccumulateLine) TXTI(AddError) TXTI(AddWarning) TXTI(LoadDatabase) TXTI(LoadDatabaseString) TXTI(RunFile) TXTI(RunString)
		if (fn == "RunAccumulated") { if (api == 'p') RINT(o->RunAccumulated()); if (api == 'c') RINT(::RunAccumulated(id)); RINT(RunAccumulatedF(pid)); }
		if (fn == "ClearAccumulatedLines") { if (api == 'p') RVOID(o->ClearAccumulatedLines()); if (api == 'c') RINT(::ClearAccumulatedLines(id)); RINT(ClearAccumulatedLinesF(pid)); }
		if (fn == "GetAccumulatedLines") { if (!o) return "\"r\":null,\"skip\":\"no object\""; RSTR(o->GetAccumulatedLines()); }
		if (fn == "OutputAccumulatedLines") { if (api == 'p') RVOID(o->OutputAccumulatedLines()); if (api == 'c') RVOID(::OutputAccumulatedLines(id)); RVOID(OutputAccumulatedLinesF(pid)); }
		if (fn == "OutputErrorString") { if (api == 'p') RVOID(o->OutputErrorString()); if (api == 'c') RVOID(::OutputErrorString(id)); RVOID(OutputErrorStringF(pid)); }
		if (fn == "OutputWarningString") { if (api == 'p') RVOID(o->OutputWarningString()); if (api == 'c') RVOID(::OutputWarningString(id)); RVOID(OutputWarningStringF(pid)); }
		if (fn == "GetId") { if (!o) return "\"r\":null"; RINT(o->GetId()); }
		if (fn == "GetVersionString") { if (api == 'p') RSTR(IPhreeqc::GetVersionString()); if (api == 'c') RSTR(::GetVersionString()); return fstr_call([&](char *b, int *l) { GetVersionStringF(b, l); }); }
		if (fn == "DestroyIPhreeqc") { if (api == 'f') RINT(DestroyIPhreeqcF(pid)); RINT(::DestroyIPhreeqc(id)); }
		// --- table cells
		if (fn == "GetSelectedOutputValue") {
			VAR v; ::VarInit(&v); VRESULT vr;
			if (api == 'p') vr = o->GetSelectedOutputValue((int)n0, (int)n1, &v);
			else if (api == 'c') vr = (VRESULT)::GetSelectedOutputValue(id, (int)n0, (int)n1, &v);
			else {
				int row = (int)n0, col = (int)n1 + 1, vt = -99; double d = -12345.678; std::string sv; int slen = 0; bool pad_ok = true; IPQ_RESULT rr = IPQ_OK;
				int cap = 256;
				for (int attempt = 0; attempt < 2; attempt++) {
					std::vector<char> buf(cap + 8, '#'); slen = cap; vt = -99; d = -12345.678;
					rr = GetSelectedOutputValueF(pid, &row, &col, &vt, &d, &buf[0], &slen);
					if (slen > cap && attempt == 0 && (vt == TT_STRING)) { cap = slen + 16; continue; }
					int shown = slen < cap ? slen : cap; if (shown < 0) shown = 0;
					if (vt == TT_STRING || vt == TT_DOUBLE) { sv.assign(&buf[0], shown); for (int i = shown; i < cap; i++) if (buf[i] != ' ') pad_ok = false; }
					if (vt == TT_STRING && slen == shown && slen >= 1) {
						// exact-fit and too-short buffers (see fstr_call); a failure is reported through pad_ok
						int caps[3] = { slen, slen - 1, 1 };
						for (int ci = 0; ci < 3; ci++) {
							int c2 = caps[ci];
							if (c2 < 1) continue;
							std::vector<char> b2(c2 + 8, '#'); int l2 = c2, vt2 = -99; double d2 = 0;
							GetSelectedOutputValueF(pid, &row, &col, &vt2, &d2, &b2[0], &l2);
							if (vt2 != TT_STRING || l2 != slen || std::string(&b2[0], c2) != sv.substr(0, c2)) pad_ok = false;
							for (int i = c2; i < c2 + 8; i++) if (b2[i] != '#') pad_ok = false;
						}
					}
					break;
				}
				std::string r = "\"r\":" + jnum((long)rr) + ",\"vt\":" + jnum(vt) + ",\"d\":" + jdbl(d) + ",\"s\":" + jstr(sv) + ",\"flen\":" + jnum(slen) + ",\"pad_ok\":" + (pad_ok ? "1" : "0");
				return r;
			}
			std::string r = var_json(vr, v); ::VarClear(&v); return r;
		}
		if (fn == "GetSelectedOutputValue2") {
			int vt = -99; double d = -12345.678; unsigned int cap = a.size() > 2 ? (unsigned)atol(a[2].c_str()) : 100u; std::vector<char> buf(cap + 8, '#'); VRESULT vr;
			if (api == 'p') vr = o->GetSelectedOutputValue2((int)n0, (int)n1, &vt, &d, &buf[0], cap);
			else vr = (VRESULT)::GetSelectedOutputValue2(id, (int)n0, (int)n1, &vt, &d, &buf[0], cap);
			bool guard_ok = true; for (unsigned i = cap; i < cap + 8; i++) if (buf[i] != '#') guard_ok = false;
			size_t sl = strnlen(&buf[0], cap);
			return "\"r\":" + jnum((long)vr) + ",\"vt\":" + jnum(vt) + ",\"d\":" + jdbl(d) + ",\"s\":" + jstr(std::string(&buf[0], sl)) + ",\"term\":" + (sl < cap ? "1" : "0") + ",\"guard_ok\":" + (guard_ok ? "1" : "0");
		}
		return "\"r\":null,\"unknown\":1";
	}

	// ---------------------------------------------------------------- snapshots
	std::string chan(const char *name, const std::string &text, bool full, bool masked) {
		std::string r = std::string("\"") + name + "\":{\"len\":" + jnum((long)text.size()) + ",\"h\":" + hex64(fnv(masked ? mask_banner(text) : text));
		if (full) r += ",\"text\":" + jstr(text);
		r += "}";
		return r;
	}
	std::string lines_json(std::function<const char*(int)> get, int count) {
		std::string r = "[";
		for (int i = 0; i < count; i++) { if (i) r += ","; r += jstr(get(i)); }
		r += "]";
		return r;
	}
	std::string file_json(const std::string &path, bool full) {
		std::string t;
		if (!slurp(path, t)) return "null";
		std::string r = "{\"len\":" + jnum((long)t.size()) + ",\"h\":" + hex64(fnv(t));
		if (full) r += ",\"text\":" + jstr(t);
		return r + "}";
	}

	// flags: o l d e w (full text of channel), s (selected output: cells, strings, lines), f (files), c (components),
	//        L (line accessors of o,l,d,e,w), g (getters)
	std::string snap(Inst &I, const std::string &flags) {
		IPhreeqc *o = I.obj; if (!o) return "\"skip\":\"no object\"";
		auto has = [&](char c) { return flags.find(c) != std::string::npos; };
		std::string r;
		r += chan("output", o->GetOutputString(), has('o'), true);
		r += "," + chan("log", o->GetLogString(), has('l'), false);
		r += "," + chan("dump", o->GetDumpString(), has('d'), false);
		r += "," + chan("error", o->GetErrorString(), has('e'), false);
		r += "," + chan("warning", o->GetWarningString(), has('w'), false);
		if (has('L')) {
			r += ",\"lines\":{";
			int n;
			n = o->GetOutputStringLineCount(); r += "\"output\":{\"n\":" + jnum(n) + ",\"l\":" + lines_json([&](int i) { return o->GetOutputStringLine(i); }, n) + ",\"m1\":" + jstr(o->GetOutputStringLine(-1)) + ",\"pn\":" + jstr(o->GetOutputStringLine(n)) + "}";
			n = o->GetLogStringLineCount(); r += ",\"log\":{\"n\":" + jnum(n) + ",\"l\":" + lines_json([&](int i) { return o->GetLogStringLine(i); }, n) + ",\"m1\":" + jstr(o->GetLogStringLine(-1)) + ",\"pn\":" + jstr(o->GetLogStringLine(n)) + "}";
			n = o->GetDumpStringLineCount(); r += ",\"dump\":{\"n\":" + jnum(n) + ",\"l\":" + lines_json([&](int i) { return o->GetDumpStringLine(i); }, n) + ",\"m1\":" + jstr(o->GetDumpStringLine(-1)) + ",\"pn\":" + jstr(o->GetDumpStringLine(n)) + "}";
			n = o->GetErrorStringLineCount(); r += ",\"error\":{\"n\":" + jnum(n) + ",\"l\":" + lines_json([&](int i) { return o->GetErrorStringLine(i); }, n) + ",\"m1\":" + jstr(o->GetErrorStringLine(-1)) + ",\"pn\":" + jstr(o->GetErrorStringLine(n)) + "}";
			n = o->GetWarningStringLineCount(); r += ",\"warning\":{\"n\":" + jnum(n) + ",\"l\":" + lines_json([&](int i) { return o->GetWarningStringLine(i); }, n) + ",\"m1\":" + jstr(o->GetWarningStringLine(-1)) + ",\"pn\":" + jstr(o->GetWarningStringLine(n)) + "}";
			r += "}";
		}
		if (has('g')) {
			r += ",\"get\":{";
			r += "\"OutputFileOn\":" + jnum(o->GetOutputFileOn()) + ",\"OutputStringOn\":" + jnum(o->GetOutputStringOn());
			r += ",\"LogFileOn\":" + jnum(o->GetLogFileOn()) + ",\"LogStringOn\":" + jnum(o->GetLogStringOn());
			r += ",\"DumpFileOn\":" + jnum(o->GetDumpFileOn()) + ",\"DumpStringOn\":" + jnum(o->GetDumpStringOn());
			r += ",\"ErrorFileOn\":" + jnum(o->GetErrorFileOn()) + ",\"ErrorStringOn\":" + jnum(o->GetErrorStringOn()) + ",\"ErrorOn\":" + jnum(o->GetErrorOn());
			r += ",\"OutputFileName\":" + jstr(o->GetOutputFileName()) + ",\"LogFileName\":" + jstr(o->GetLogFileName());
			r += ",\"DumpFileName\":" + jstr(o->GetDumpFileName()) + ",\"ErrorFileName\":" + jstr(o->GetErrorFileName());
			r += ",\"Current\":" + jnum(o->GetCurrentSelectedOutputUserNumber()) + ",\"SelectedOutputCount\":" + jnum(o->GetSelectedOutputCount());
			r += ",\"Id\":" + jnum(o->GetId());
			r += "}";
		}
		if (has('f')) {
			r += ",\"files\":{";
			r += "\"output\":" + file_json(o->GetOutputFileName(), has('o'));
			r += ",\"log\":" + file_json(o->GetLogFileName(), has('l'));
			r += ",\"dump\":" + file_json(o->GetDumpFileName(), has('d'));
			r += ",\"error\":" + file_json(o->GetErrorFileName(), has('e'));
			r += "}";
		}
		if (has('c')) {
			int n = (int)o->GetComponentCount();
			r += ",\"components\":" + lines_json([&](int i) { return o->GetComponent(i); }, n);
		}
		{
			int cur = o->GetCurrentSelectedOutputUserNumber();
			int cnt = o->GetSelectedOutputCount();
			r += ",\"selcur\":" + jnum(cur) + ",\"selcount\":" + jnum(cnt) + ",\"selout\":[";
			for (int k = 0; k < cnt; k++) {
				int n = o->GetNthSelectedOutputUserNumber(k);
				VRESULT sr = o->SetCurrentSelectedOutputUserNumber(n);
				if (k) r += ",";
				int rows = o->GetSelectedOutputRowCount(), cols = o->GetSelectedOutputColumnCount();
				std::string str = o->GetSelectedOutputString();
				r += "{\"n\":" + jnum(n) + ",\"setcur\":" + jnum((long)sr) + ",\"rows\":" + jnum(rows) + ",\"cols\":" + jnum(cols);
				r += ",\"string_on\":" + jnum(o->GetSelectedOutputStringOn()) + ",\"file_on\":" + jnum(o->GetSelectedOutputFileOn());
				r += ",\"file_name\":" + jstr(o->GetSelectedOutputFileName());
				r += ",\"slen\":" + jnum((long)str.size()) + ",\"sh\":" + hex64(fnv(str));
				// table digest always; cells when 's'
				std::string cells = "["; uint64_t th = 1469598103934665603ULL;
				for (int rr = 0; rr < rows; rr++) {
					if (rr) cells += ","; cells += "[";
					for (int cc = 0; cc < cols; cc++) {
						VAR v; ::VarInit(&v); VRESULT vr = o->GetSelectedOutputValue(rr, cc, &v);
						std::string cell;
						switch (v.type) {
						case TT_EMPTY: cell = "[\"x\"]"; break;
						case TT_ERROR: cell = "[\"e\"," + jnum((long)v.vresult) + "]"; break;
						case TT_LONG: cell = "[\"l\",\"" + std::to_string(v.lVal) + "\"]"; break;
						case TT_DOUBLE: cell = "[\"d\"," + jdbl(v.dVal) + "]"; break;
						case TT_STRING: cell = "[\"s\"," + jstr(v.sVal) + "]"; break;
						default: cell = "[\"?\"]";
						}
						if (vr != VR_OK) cell = "[\"E\"," + jnum((long)vr) + "," + cell + "]";
						::VarClear(&v);
						th ^= fnv(cell); th *= 1099511628211ULL;
						if (cc) cells += ","; cells += cell;
					}
					cells += "]";
				}
				cells += "]";
				r += ",\"th\":" + hex64(th);
				if (has('s')) {
					r += ",\"cells\":" + cells;
					r += ",\"string\":" + jstr(str);
					int nl = o->GetSelectedOutputStringLineCount();
					r += ",\"nlines\":" + jnum(nl) + ",\"lines\":" + lines_json([&](int i) { return o->GetSelectedOutputStringLine(i); }, nl);
					r += ",\"line_m1\":" + jstr(o->GetSelectedOutputStringLine(-1)) + ",\"line_pn\":" + jstr(o->GetSelectedOutputStringLine(nl));
				}
				if (has('f')) r += ",\"file\":" + file_json(o->GetSelectedOutputFileName(), has('s'));
				r += "}";
			}
			r += "]";
			o->SetCurrentSelectedOutputUserNumber(cur);
		}
		return r;
	}

	// ---------------------------------------------------------------- in-memory copies (C10)
	// copy kind: storagebin | serializer | copyctor ; copies cell numbers lo..hi from src instance into dst
	std::string memcopy(Inst &S, Inst &D, const std::string &kind, int lo, int hi) {
		if (!S.obj || !D.obj) return "\"r\":null,\"skip\":\"no object\"";
		Phreeqc *ps = static_cast<XIPhreeqc*>(S.obj)->P(); Phreeqc *pd = static_cast<XIPhreeqc*>(D.obj)->P();
		int copied = 0;
		if (kind == "storagebin") {
			for (int n = lo; n <= hi; n++) {
				cxxStorageBin sb; ps->phreeqc2cxxStorageBin(sb, n);
				pd->cxxStorageBin2phreeqc(sb, n); copied++;
			}
		} else if (kind == "storagebin_all") {
			cxxStorageBin sb; ps->phreeqc2cxxStorageBin(sb); pd->cxxStorageBin2phreeqc(sb); copied = 1;
		} else if (kind == "serializer") {
			Serializer ser; ser.Serialize(*ps, lo, hi, true, true);
			std::string words = ser.GetDictionary().GetDictionaryOss().str();
			Dictionary dict(words);
			std::vector<int> iv = ser.GetInts(); std::vector<double> dv = ser.GetDoubles();
			Serializer de; de.Deserialize(*pd, dict, iv, dv);
			copied = (int)iv.size();
		} else if (kind == "assign") {
			*pd = *ps; copied = 1;
		} else return "\"r\":null,\"unknown\":1";
		return "\"r\":" + jnum(copied);
	}

	// ---------------------------------------------------------------- three-binding probe (C13)
	// probe3 X [cells]: every accessor through the C++ method (when the object is reachable), the C function and the
	// Fortran-glue function, on the same instance at the same moment. Index arguments for indexed accessors are
	// -1, 0, 1, count-1, count (count taken through the C function). With "cells": up to 5x6 table cells plus
	// out-of-range rows/columns through GetSelectedOutputValue (3 bindings) and GetSelectedOutputValue2 (2 bindings).
	std::string probe3(Inst &I, const std::vector<std::string> &a) {
		static const char *noarg[] = { "GetComponentCount", "GetCurrentSelectedOutputUserNumber", "GetDumpStringLineCount", "GetErrorStringLineCount",
			"GetLogStringLineCount", "GetOutputStringLineCount", "GetSelectedOutputStringLineCount", "GetWarningStringLineCount",
			"GetSelectedOutputColumnCount", "GetSelectedOutputCount", "GetSelectedOutputRowCount",
			"GetDumpFileOn", "GetDumpStringOn", "GetErrorFileOn", "GetErrorOn", "GetErrorStringOn", "GetLogFileOn", "GetLogStringOn",
			"GetOutputFileOn", "GetOutputStringOn", "GetSelectedOutputFileOn", "GetSelectedOutputStringOn",
			"GetDumpFileName", "GetErrorFileName", "GetLogFileName", "GetOutputFileName", "GetSelectedOutputFileName",
			"GetDumpString", "GetErrorString", "GetLogString", "GetOutputString", "GetSelectedOutputString", "GetWarningString", "GetVersionString", 0 };
		static const char *indexed[][2] = { {"GetComponent", "GetComponentCount"}, {"GetDumpStringLine", "GetDumpStringLineCount"},
			{"GetErrorStringLine", "GetErrorStringLineCount"}, {"GetLogStringLine", "GetLogStringLineCount"},
			{"GetOutputStringLine", "GetOutputStringLineCount"}, {"GetSelectedOutputStringLine", "GetSelectedOutputStringLineCount"},
			{"GetWarningStringLine", "GetWarningStringLineCount"}, {"GetNthSelectedOutputUserNumber", "GetSelectedOutputCount"}, {0, 0} };
		const char *apis = I.obj ? "pcf" : "cf";
		std::vector<std::string> none;
		auto three = [&](const std::string &fn, const std::vector<std::string> &args) {
			std::string r = "{";
			for (const char *p = apis; *p; ++p) { if (p != apis) r += ","; r += std::string("\"") + *p + "\":{" + call(I, *p, fn, args) + "}"; }
			return r + "}";
		};
		std::string r = "\"has_obj\":" + std::string(I.obj ? "1" : "0") + ",\"g\":{";
		for (int i = 0; noarg[i]; i++) { if (i) r += ","; r += std::string("\"") + noarg[i] + "\":" + three(noarg[i], none); }
		r += "},\"li\":{";
		for (int i = 0; indexed[i][0]; i++) {
			if (i) r += ",";
			int cnt = 0;
			{ std::string c = call(I, 'c', indexed[i][1], none); cnt = atoi(c.c_str() + 4); }
			if (cnt < 0) cnt = 0;
			int idx[5] = { -1, 0, 1, cnt - 1, cnt };
			r += std::string("\"") + indexed[i][0] + "\":{\"count\":" + jnum(cnt);
			for (int k = 0; k < 5; k++) {
				bool dup = false; for (int j = 0; j < k; j++) if (idx[j] == idx[k]) dup = true;
				if (dup) continue;
				std::vector<std::string> one(1, std::to_string(idx[k]));
				r += ",\"" + std::to_string(idx[k]) + "\":" + three(indexed[i][0], one);
			}
			r += "}";
		}
		r += "}";
		if (!a.empty() && a[0] == "cells") {
			int rows = atoi(call(I, 'c', "GetSelectedOutputRowCount", none).c_str() + 4), cols = atoi(call(I, 'c', "GetSelectedOutputColumnCount", none).c_str() + 4);
			if (rows < 0) rows = 0; if (cols < 0) cols = 0;
			std::vector<std::pair<int, int> > rc;
			for (int rr = 0; rr < rows && rr < 5; rr++) for (int cc = 0; cc < cols && cc < 6; cc++) rc.push_back(std::make_pair(rr, cc));
			if (rows > 5 && cols > 0) rc.push_back(std::make_pair(rows - 1, cols - 1));
			rc.push_back(std::make_pair(rows, 0)); rc.push_back(std::make_pair(0, cols)); rc.push_back(std::make_pair(-1, 0)); rc.push_back(std::make_pair(0, -1));
			r += ",\"rows\":" + jnum(rows) + ",\"cols\":" + jnum(cols) + ",\"cells\":[";
			for (size_t k = 0; k < rc.size(); k++) {
				std::vector<std::string> two; two.push_back(std::to_string(rc[k].first)); two.push_back(std::to_string(rc[k].second));
				if (k) r += ",";
				r += "{\"row\":" + jnum(rc[k].first) + ",\"col\":" + jnum(rc[k].second) + ",\"v\":" + three("GetSelectedOutputValue", two);
				std::vector<std::string> v2 = two; v2.push_back(k % 2 ? "100" : "8");
				r += ",\"cap\":" + v2[2] + ",\"v2\":{";
				bool first = true;
				for (const char *p = apis; *p; ++p) { if (*p == 'f') continue; if (!first) r += ","; first = false; r += std::string("\"") + *p + "\":{" + call(I, *p, "GetSelectedOutputValue2", v2) + "}"; }
				r += "}}";
			}
			r += "]";
		}
		return r;
	}

	// ---------------------------------------------------------------- script execution
	int exec(std::istream &in) {
		std::string line;
		while (std::getline(in, line)) {
			if (line.empty() || line[0] == '#') continue;
			std::istringstream ls(line); std::string op; ls >> op;
			if (op == "text") {
				std::string id; size_t n = 0; ls >> id >> n; std::string t(n, '\0');
				if (n) in.read(&t[0], (std::streamsize)n);
				std::string rest; std::getline(in, rest);
				texts[id] = t; continue;
			}
			std::vector<std::string> a; std::string t; while (ls >> t) a.push_back(t);
			if (op == "tag") { tag = a.empty() ? "" : a[0]; continue; }
			if (op == "time") { want_time = !a.empty() && a[0] == "1"; continue; }
			if (op == "quit") break;
			std::string name = a.empty() ? "" : a[0];
			std::vector<std::string> rest(a.begin() + (a.empty() ? 0 : 1), a.end());
			step(op, name, rest);
		}
		return 0;
	}

	void step(const std::string &op, const std::string &name, std::vector<std::string> &a) {
		std::string argj = "[";
		for (size_t i = 0; i < a.size(); i++) { if (i) argj += ","; argj += jstr(a[i]); }
		argj += "]";
		emit(head("call", op, name) + ",\"args\":" + argj + "}");
		std::string res;
		try {
			res = dispatch(op, name, a);
		} catch (const std::exception &e) {
			res = std::string("\"exc\":") + jstr(e.what());
		} catch (...) {
			res = "\"exc\":\"unknown\"";
		}
		emit(head("ret", op, name) + "," + res + "}");
	}

	std::string dispatch(const std::string &op, const std::string &name, std::vector<std::string> &a) {
		if (op == "new" || op == "cnew" || op == "fnew") {
			Inst I;
			if (op == "new") { I.obj = new XIPhreeqc; I.id = I.obj->GetId(); I.api = 'p'; I.owned = true; }
			else { I.id = (op == "cnew") ? ::CreateIPhreeqc() : CreateIPhreeqcF(); I.api = (op == "cnew") ? 'c' : 'f'; I.obj = (I.id >= 0) ? XIPhreeqc::Find(I.id) : 0; }
			I.live = I.id >= 0;
			inst[name] = I;
			return "\"r\":" + jnum(I.id);
		}
		if (op == "bind") { Inst I; I.id = atoi(a.at(0).c_str()); I.api = 'c'; I.obj = 0; inst[name] = I; return "\"r\":" + jnum(I.id); }
		if (op == "cl1log") {   // cl1log PATH [max problems]: record every cl1 problem and result from now on; "cl1log -" stops
			if (cl1_file) { fclose(cl1_file); cl1_file = 0; }
			iphreeqc_verif_cl1_hook = 0;
			if (name != "-") { cl1_file = fopen(name.c_str(), "wb"); cl1_budget = a.empty() ? 2000 : atol(a[0].c_str()); iphreeqc_verif_cl1_hook = cl1_hook; }
			return "\"r\":" + jnum(cl1_file != 0);
		}
		if (op == "rm") { return "\"r\":" + jnum(unlink(name.c_str())); }
		if (op == "mkdir") { return "\"r\":" + jnum(mkdir(name.c_str(), 0777)); }
		if (op == "readfile") { return "\"file\":" + file_json(name, true); }
		if (op == "writefile") { Arg t = arg(a.at(0)); std::ofstream f(name.c_str(), std::ios::binary); f << t.s; return "\"r\":0"; }
		if (op == "ls") {
			std::string r = "\"r\":["; DIR *d = opendir(name.c_str()); bool first = true;
			if (d) { std::vector<std::string> v; while (struct dirent *e = readdir(d)) { std::string n = e->d_name; if (n != "." && n != "..") v.push_back(n); } closedir(d); std::sort(v.begin(), v.end()); for (size_t i = 0; i < v.size(); i++) { if (!first) r += ","; first = false; r += jstr(v[i]); } }
			return r + "]";
		}
		std::map<std::string, Inst>::iterator it = inst.find(name);
		if (it == inst.end()) return "\"r\":null,\"skip\":\"unknown instance\"";
		Inst &I = it->second;
		if (op == "del") {
			long r = 0;
			if (I.owned) { if (I.obj) { delete I.obj; } else r = -1; }
			else if (I.api == 'f') { int id = I.id; r = DestroyIPhreeqcF(&id); }
			else r = ::DestroyIPhreeqc(I.id);
			I.obj = 0; I.live = false;
			return "\"r\":" + jnum(r);
		}
		if (op == "cdel" || op == "fdel") {   // destroy through the C / Fortran-glue registry function, however the instance was created
			long r; int id = I.id;
			if (op == "fdel") r = DestroyIPhreeqcF(&id); else r = ::DestroyIPhreeqc(I.id);
			if (r == 0) { I.obj = 0; I.live = false; }
			return "\"r\":" + jnum(r);
		}
		if (op == "probe3") return probe3(I, a);
		if (op == "api") { I.api = a.at(0)[0]; return "\"r\":0"; }
		if (op == "call") {   // call NAME binding Func args...
			char api = a.at(0)[0]; std::string fn = a.at(1); std::vector<std::string> rest(a.begin() + 2, a.end());
			return call(I, api, fn, rest);
		}
		if (op == "snap") { return snap(I, a.empty() ? "" : a[0]); }
		if (op == "memcopy") {   // memcopy SRC DST kind lo hi
			std::map<std::string, Inst>::iterator d = inst.find(a.at(0)); if (d == inst.end()) return "\"r\":null,\"skip\":\"unknown instance\"";
			return memcopy(I, d->second, a.at(1), atoi(a.at(2).c_str()), atoi(a.at(3).c_str()));
		}
		// shorthands using the instance's default binding
		std::vector<std::string> rest(a.begin(), a.end());
		if (op == "loaddb") return call(I, I.api, "LoadDatabase", rest);
		if (op == "loaddbstr") return call(I, I.api, "LoadDatabaseString", rest);
		if (op == "run") return call(I, I.api, "RunString", rest);
		if (op == "runfile") return call(I, I.api, "RunFile", rest);
		if (op == "runacc") return call(I, I.api, "RunAccumulated", rest);
		if (op == "clearacc") return call(I, I.api, "ClearAccumulatedLines", rest);
		if (op == "acc") {   // accumulate a text line by line
			Arg t = arg(a.at(0)); std::istringstream is(t.s); std::string l; long n = 0, bad = 0;
			while (std::getline(is, l)) { std::vector<std::string> one(1, "@__line"); texts["__line"] = l; std::string r = call(I, I.api, "AccumulateLine", one); if (r != "\"r\":0") bad++; n++; }
			return "\"r\":" + jnum(bad) + ",\"lines\":" + jnum(n);
		}
		if (op == "set") {   // set NAME Prop value
			std::string fn = "Set" + a.at(0); std::vector<std::string> r1(a.begin() + 1, a.end());
			return call(I, I.api, fn, r1);
		}
		if (op == "get") { std::string fn = "Get" + a.at(0); std::vector<std::string> r1(a.begin() + 1, a.end()); return call(I, I.api, fn, r1); }
		if (op == "cur") return call(I, I.api, "SetCurrentSelectedOutputUserNumber", rest);
		return "\"r\":null,\"unknown_op\":1";
	}
};

} // namespace vc
#endif
