// vthreads - C06 driver: N threads, each interpreting its own vdrive scenario on its own instances.
// usage: vthreads manifest outdir seed delay_us
//   manifest: one scenario script path per line (one thread each)
//   outdir:   t<k>.jsonl (event log of thread k), hook<k>.jsonl (hook events seen by thread k)
//   seed:     seeds the per-thread PRNG of the delay hook
//   delay_us: 0 = hook only records; >0 = hook also yields / sleeps up to that many microseconds at sites outside the library's lock
// All threads wait at a start barrier; every record carries a monotonic time stamp so that the oracle can tell which
// calls of different threads overlapped.
#include "vcore.h"
#include "interpose.h"
#include <thread>
#include <atomic>
#include <mutex>
#include <condition_variable>

extern "C" { extern void (*iphreeqc_verif_hook)(const char *site, long a, long b); }

static std::atomic<long> g_seq(0);
static std::atomic<int> g_ready(0);
static std::atomic<bool> g_go(false);
static long g_delay_us = 0;

struct HookEv { long seq; const char *site; long a, b; };
static thread_local std::vector<HookEv> *t_events = 0;
static thread_local uint64_t t_rng = 0;

static inline uint64_t xs(uint64_t &s) { s ^= s << 13; s ^= s >> 7; s ^= s << 17; return s; }

static void hook(const char *site, long a, long b) {
	long q = g_seq.fetch_add(1, std::memory_order_relaxed);
	if (t_events) { HookEv e = { q, site, a, b }; t_events->push_back(e); }
	if (g_delay_us > 0 && t_rng) {
		uint64_t r = xs(t_rng);
		switch (r & 3) {
		case 0: break;
		case 1: std::this_thread::yield(); break;
		default: usleep((useconds_t)((r >> 8) % (uint64_t)g_delay_us)); break;
		}
	}
}

static void worker(int k, std::string script, std::string outdir, uint64_t seed) {
	std::vector<HookEv> events; events.reserve(4096);
	t_events = &events;
	t_rng = seed * 0x9E3779B97F4A7C15ULL + (uint64_t)(k + 1) * 0xD1B54A32D192ED03ULL; if (!t_rng) t_rng = 1;
	std::string text;
	if (!vc::slurp(script, text)) { fprintf(stderr, "cannot read %s\n", script.c_str()); }
	std::istringstream in(text);
	std::string outp = outdir + "/t" + std::to_string(k) + ".jsonl";
	FILE *out = fopen(outp.c_str(), "w");
	vc::Interp I(out);
	I.want_time = true;
	g_ready.fetch_add(1);
	while (!g_go.load()) std::this_thread::yield();
	I.exec(in);
	I.emit("{\"ev\":\"end\"}");
	fclose(out);
	std::string hp = outdir + "/hook" + std::to_string(k) + ".jsonl";
	FILE *hf = fopen(hp.c_str(), "w");
	for (size_t i = 0; i < events.size(); i++) fprintf(hf, "{\"seq\":%ld,\"site\":\"%s\",\"a\":%ld,\"b\":%ld,\"thr\":%d}\n", events[i].seq, events[i].site, events[i].a, events[i].b, k);
	fclose(hf);
	t_events = 0;
}

int main(int argc, char **argv) {
	if (argc < 5) { fprintf(stderr, "usage: vthreads manifest outdir seed delay_us\n"); vc_leaving = 1; return 2; }
	std::ifstream mf(argv[1]); std::vector<std::string> scripts; std::string l;
	while (std::getline(mf, l)) if (!l.empty()) scripts.push_back(l);
	std::string outdir = argv[2]; uint64_t seed = strtoull(argv[3], 0, 10); g_delay_us = atol(argv[4]);
	vc_event_fd = 2;
	iphreeqc_verif_hook = hook;
	std::vector<std::thread> th;
	for (size_t k = 0; k < scripts.size(); k++) th.push_back(std::thread(worker, (int)k, scripts[k], outdir, seed));
	while (g_ready.load() < (int)scripts.size()) std::this_thread::yield();
	g_go.store(true);
	for (size_t k = 0; k < th.size(); k++) th[k].join();
	iphreeqc_verif_hook = 0;
	vc_leaving = 1;
	return 0;
}
