// vdrive - runs one scenario script against the real library and records every call and every
// observable channel as JSON lines.  usage: vdrive script [out.jsonl]
#include "vcore.h"
#include "interpose.h"
#include <fcntl.h>
int main(int argc, char **argv) {
	if (argc < 2) { fprintf(stderr, "usage: vdrive script [out]\n"); vc_leaving = 1; return 2; }
	FILE *out = stdout;
	if (argc > 2) { out = fopen(argv[2], "w"); if (!out) { perror("out"); vc_leaving = 1; return 2; } }
	vc_event_fd = fileno(out);
	std::ifstream in(argv[1], std::ios::binary);
	if (!in) { fprintf(stderr, "cannot read %s\n", argv[1]); vc_leaving = 1; return 2; }
	vc::Interp I(out);
	I.exec(in);
	I.emit("{\"ev\":\"end\"}");
	fflush(out);
	vc_leaving = 1;
	return 0;
}
