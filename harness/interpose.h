// interpose.h - link-time wrappers (--wrap=exit,_exit,abort): an attempt by library code to leave the
// process is turned into a recorded event; the process then ends with a reserved status.
#ifndef INTERPOSE_H
#define INTERPOSE_H
#include <unistd.h>
#include <execinfo.h>
#include <cstdio>
#include <cstring>
extern "C" {
void __real__exit(int);
static volatile int vc_leaving = 0;      // set by the harness itself when it ends the process on purpose
static int vc_event_fd = 2;
static void vc_report(const char *what, int st) {
	char b[128]; int n = snprintf(b, sizeof b, "{\"ev\":\"process_exit_attempt\",\"what\":\"%s\",\"status\":%d}\n", what, st);
	if (write(vc_event_fd, b, n) < 0) {}
	void *bt[32]; int k = backtrace(bt, 32); backtrace_symbols_fd(bt, k, 2);
}
void __wrap_exit(int st) { if (!vc_leaving) vc_report("exit", st); __real__exit(vc_leaving ? st : 97); }
void __wrap__exit(int st) { if (!vc_leaving) vc_report("_exit", st); __real__exit(vc_leaving ? st : 97); }
void __wrap_abort(void) { vc_report("abort", 0); __real__exit(98); }
}
#endif
